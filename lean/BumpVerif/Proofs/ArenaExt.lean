import BumpVerif.Model.ArenaExt
import BumpVerif.Proofs.Ledger
import BumpVerif.Proofs.Contents
import BumpVerif.Proofs.Rewind
/-!
# `sliceTryFillIn`: `alloc_slice_try_fill_with` whose closure allocates in the arena

Everything here is a composition of the lemmas about the ingredients (`allocLayout_spec`,
`runInner_live` / `runInner_ledger` / `runInner_mem`, `dealloc_frame`).  One case analysis
(`sliceTryFillIn_main`) yields a bundle (`FillInPost`); the statements asked for are projections.
-/
namespace Bump
open Gen

/-! ## small helpers -/

theorem bindO_ok {α β : Type} (s : St) (a : α) (f : St → α → St × Outcome β) : bindO (s, .ok a) f = f s a := rfl
theorem bindO_err {α β : Type} (s : St) (f : St → α → St × Outcome β) : bindO (s, .err) f = (s, .err) := rfl
theorem bindO_panic {α β : Type} (s : St) (f : St → α → St × Outcome β) : bindO (s, .panic) f = (s, .panic) := rfl
theorem bindO_bad {α β : Type} (s : St) (w : String) (f : St → α → St × Outcome β) :
    bindO (s, .bad w) f = (s, .bad w) := rfl
theorem bindO_envBad' {α β : Type} (s : St) (f : St → α → St × Outcome β) : bindO (s, .envBad) f = (s, .envBad) := rfl

theorem keptBlocks_nil (inner : List Inner) : keptBlocks inner [] = [] := by
  cases inner with
  | nil => rfl
  | cons i is => cases i <;> rfl

/-- how the live set changes with `sliceTryFillIn` and its result (the analogue of `liveAfter` for
`.atw`): the slice joins the live set when the fill succeeds, the blocks the closure kept join it
in both cases -/
def liveAfterFillIn (live : List Block) (esz n : Nat) (inner : List Inner) : Res → List Block
  | .ptrIn p ps => live ++ [⟨p, esz * n⟩] ++ keptBlocks inner ps
  | .ierr ps => live ++ keptBlocks inner ps
  | _ => live

/-- every event appended is a `malloc` (answered or refused): nothing is freed -/
def OnlyMallocs (evs : List Ev) : Prop := ∀ e ∈ evs, ∃ sz al r, e = .malloc sz al r

theorem AllRefused.onlyMallocs {refs : List Ev} (h : AllRefused refs) : OnlyMallocs refs := by
  intro e he
  obtain ⟨sz, al, h1⟩ := h e he
  exact ⟨sz, al, none, h1⟩

/-- a ledger step only ever appends `malloc` events -/
theorem LedgerStep.onlyMallocs {s s' : St} (h : LedgerStep s s') :
    ∃ ms, s'.evs = s.evs ++ ms ∧ OnlyMallocs ms := by
  induction h with
  | refl s => exact ⟨[], by simp, by intro e he; cases he⟩
  | refused refs hr he hk => exact ⟨refs, he, hr.onlyMallocs⟩
  | acquired refs c hr he hk =>
    refine ⟨refs ++ [.malloc c.size c.align (some c.data)], by rw [he, List.append_assoc], ?_⟩
    intro e he'
    rcases List.mem_append.mp he' with h1 | h1
    · exact hr.onlyMallocs e h1
    · simp only [List.mem_singleton] at h1
      exact ⟨_, _, _, h1⟩
  | trans _ _ ih1 ih2 =>
    obtain ⟨m1, e1, o1⟩ := ih1
    obtain ⟨m2, e2, o2⟩ := ih2
    refine ⟨m1 ++ m2, by rw [e2, e1, List.append_assoc], ?_⟩
    intro e he'
    rcases List.mem_append.mp he' with h1 | h1
    · exact o1 e h1
    · exact o2 e h1

/-- removing a live block from the middle of the live list with `dealloc` keeps the invariant
(`dealloc_live` without the detour through `List.erase`) -/
theorem dealloc_live_mid {E p sz al} {s : St} {pre post : List Block} (hE : EnvOK E)
    (inv : LiveInv E ⟨s, pre ++ [⟨p, sz⟩] ++ post⟩) (hA : IsPow2 al) (hd : al ∣ p) :
    (dealloc E p sz s).2 = .ok () ∧ LiveInv E ⟨(dealloc E p sz s).1, pre ++ post⟩ ∧
    Persist s.a (dealloc E p sz s).1.a := by
  have hmem : (⟨p, sz⟩ : Block) ∈ pre ++ [⟨p, sz⟩] ++ post := by simp
  have hb := blockOK_of_inv (inv.blocks _ hmem) hA hd
  obtain ⟨h1, h2, h3, h4⟩ := dealloc_frame s hE inv.wf hb
  have hdis : (pre ++ [(⟨p, sz⟩ : Block)] ++ post).Pairwise NoOverlap := inv.disj
  rw [List.pairwise_append, List.pairwise_append] at hdis
  obtain ⟨⟨hpre, _, hpx⟩, hpost, hcross⟩ := hdis
  refine ⟨h1, ⟨h2, ?_, ?_⟩, dealloc_persist s hE inv.wf (cur_block hE inv.wf hb)⟩
  · intro b hbm
    have hbm' : b ∈ pre ++ post := hbm
    have hbl : b ∈ pre ++ [⟨p, sz⟩] ++ post := by
      rcases List.mem_append.mp hbm' with h | h
      · exact List.mem_append_left _ (List.mem_append_left _ h)
      · exact List.mem_append_right _ h
    obtain ⟨g1, g2, g3, g4⟩ := inv.blocks b hbl
    refine ⟨by rw [h3]; exact g1, g2, g3, ?_⟩
    by_cases hz : b.size = 0
    · exact Or.inl hz
    · right
      have hi := g4.resolve_left hz
      apply h4 b.ptr b.size (by omega) hi g1
      have hno : NoOverlap b ⟨p, sz⟩ := by
        rcases List.mem_append.mp hbm' with h | h
        · exact hpx b h _ (List.mem_singleton.mpr rfl)
        · exact (hcross (⟨p, sz⟩ : Block) (List.mem_append_right _ (List.mem_singleton.mpr rfl)) b h).symm
      simp only [NoOverlap] at hno
      rcases hno with h0 | h0 | h0
      · exact absurd h0 hz
      · exact Or.inl h0
      · exact Or.inr h0
  · show (pre ++ post).Pairwise NoOverlap
    rw [List.pairwise_append]
    exact ⟨hpre, hpost, fun a ha b hb => hcross a (List.mem_append_left _ ha) b hb⟩

/-- the closure's arena traffic as `sliceTryFillIn` performs it (only when the closure is called
at all, i.e. `n > 0`): all the facts about `runInner`, packaged -/
theorem fillInner_spec {E} (hE : EnvOK E) (n : Nat) (inner : List Inner) (s : St) (live : List Block)
    (inv : LiveInv E ⟨s, live⟩) (hin : ∀ i ∈ inner, InnerValid i) (s2 : St) (o2 : Outcome (List Nat))
    (h : (if n > 0 then runInner E inner s [] else (s, Outcome.ok [])) = (s2, o2)) :
    (∀ w, o2 ≠ .bad w) ∧ o2 ≠ .err ∧ o2 ≠ .panic ∧
    (∀ ps, o2 = .ok ps → LiveInv E ⟨s2, live ++ keptBlocks inner ps⟩ ∧ Persist s.a s2.a) ∧
    (o2 ≠ .envBad → LedgerStep s s2 ∧ s2.mem = s.mem) := by
  by_cases hn : n > 0
  · rw [if_pos hn] at h
    obtain ⟨b1, b2, b3, b4⟩ := runInner_live hE inner s live [] inv hin
    have lr := runInner_ledger hE inner s live [] inv hin
    have mr := runInner_mem hE inner s live [] inv hin
    rw [h] at b1 b2 b3 b4 lr mr
    simp only at b1 b2 b3 b4 lr mr
    refine ⟨b1, b2, b3, ?_, fun hne => ⟨lr hne, mr hne⟩⟩
    intro ps hps
    obtain ⟨ps', hpe, hl, hpers⟩ := b4 ps hps
    simp only [List.nil_append] at hpe
    subst hpe
    exact ⟨hl, hpers⟩
  · rw [if_neg hn] at h
    cases h
    refine ⟨by intro w; simp, by simp, by simp, ?_, fun _ => ⟨.refl _, rfl⟩⟩
    intro ps hps
    cases hps
    rw [keptBlocks_nil, List.append_nil]
    exact ⟨inv, Persist.refl _⟩

/-! ## the bundle -/

/-- what `sliceTryFillIn` guarantees from a state satisfying the live-block invariant, when the
allocator keeps its contract -/
structure FillInPost (E : Nat) (esz n : Nat) (errat : Option Nat) (inner : List Inner) (s : St)
    (live : List Block) (r : St × Res) : Prop where
  /-- the live-block invariant, with the slice (on success) and the kept blocks added -/
  live : LiveInv E ⟨r.1, liveAfterFillIn live esz n inner r.2⟩
  /-- only refused requests and chunk acquisitions: nothing is freed -/
  ledger : LedgerStep s r.1
  /-- the arena writes no memory -/
  mem : r.1.mem = s.mem
  /-- no chunk is lost or resized -/
  persist : Persist s.a r.1.a
  /-- result shape: out-of-memory / capacity overflow (arena unchanged), or the closure's error at
  `i < n` is handed back, or the slice is returned -/
  shape : (r.2 = .panic ∧ r.1.a = s.a) ∨
    ((∃ i, errat = some i ∧ i < n) ∧ ∃ ps, r.2 = .ierr ps) ∨
    ((∀ i, errat = some i → ¬ i < n) ∧ ∃ p ps, r.2 = .ptrIn p ps)

/-- **One call.** The analogue of `sysStep_live_full` (+ `sysStep_ledger`, `sysStep_mem`) for the
composite operation. -/
theorem sliceTryFillIn_main {E esz eal n} (hE : EnvOK E) (errat : Option Nat) (inner : List Inner) (s : St)
    (live : List Block) (inv : LiveInv E ⟨s, live⟩) (hA : IsPow2 eal) (heal : eal ≤ 2 ^ 63)
    (hin : ∀ i ∈ inner, InnerValid i) :
    (∀ w, (sliceTryFillIn E esz eal n errat inner s).2 ≠ .bad w) ∧
    ((sliceTryFillIn E esz eal n errat inner s).2 ≠ .envBad →
      FillInPost E esz n errat inner s live (sliceTryFillIn E esz eal n errat inner s)) := by
  unfold sliceTryFillIn
  cases hl : arrayLayout esz eal n with
  | none =>
    refine ⟨by intro w; simp, fun _ => ⟨?_, .refl s, rfl, Persist.refl _, Or.inl ⟨rfl, rfl⟩⟩⟩
    simpa [liveAfterFillIn] using inv
  | some total =>
    obtain ⟨ht, hlay⟩ := arrayLayout_some heal hl
    subst ht
    have sp := allocLayout_spec (sz := esz * n) (al := eal) s hE inv.wf hA hlay
    simp only
    cases hr : allocLayout E (esz * n) eal s with
    | mk s1 o1 =>
      rw [hr] at sp
      simp only at sp
      cases o1 with
      | ok p =>
        simp only [bindO_ok]
        have inv1 := allocPost_live hE inv sp rfl
        have la : LedgerStep s s1 := allocPost_ledger sp (by simp)
        obtain ⟨_, hal, _, _, hsh, _⟩ := sp.ok p rfl
        have hps1 : Persist s.a s1.a := hsh.persist sp.m_eq
        cases hri : (if n > 0 then runInner E inner s1 [] else (s1, Outcome.ok [])) with
        | mk s2 o2 =>
          obtain ⟨b1, b2, b3, b4, b5⟩ := fillInner_spec hE n inner s1 _ inv1 hin s2 o2 hri
          cases o2 with
          | ok ps =>
            obtain ⟨hl2, hpers⟩ := b4 ps rfl
            obtain ⟨lr, hm2⟩ := b5 (by simp)
            simp only [bindO_ok]
            cases errat with
            | none =>
              simp only [Res.ofOutcome, id]
              refine ⟨by intro w; simp, fun _ => ⟨hl2, .trans la lr, by rw [hm2, sp.mem_eq], hps1.trans hpers,
                Or.inr (Or.inr ⟨(by intro i hi; cases hi), p, ps, rfl⟩)⟩⟩
            | some i =>
              simp only
              by_cases hi : i < n
              · simp only [hi, ↓reduceIte]
                obtain ⟨hd1, inv3, hps3⟩ := dealloc_live_mid hE hl2 hA hal
                have ld := dealloc_ledger (E := E) (p := p) (sz := esz * n) s2
                have hm3 := (dealloc_spec (p := p) (sz := esz * n) s2 hE hl2.wf
                  (cur_block hE hl2.wf (blockOK_of_inv (hl2.blocks ⟨p, esz * n⟩ (by simp)) hA hal))).2.2.1
                cases hdd : dealloc E p (esz * n) s2 with
                | mk s3 o3 =>
                  rw [hdd] at hd1 inv3 hps3 ld hm3
                  simp only at hd1 inv3 hps3 ld hm3
                  subst hd1
                  simp only [bindO_ok, Res.ofOutcome, id]
                  refine ⟨by intro w; simp, fun _ => ⟨inv3, .trans la (.trans lr ld), by rw [hm3, hm2, sp.mem_eq],
                    (hps1.trans hpers).trans hps3, Or.inr (Or.inl ⟨⟨i, rfl, hi⟩, ps, rfl⟩)⟩⟩
              · simp only [hi, ↓reduceIte, Res.ofOutcome, id]
                refine ⟨by intro w; simp, fun _ => ⟨hl2, .trans la lr, by rw [hm2, sp.mem_eq], hps1.trans hpers,
                  Or.inr (Or.inr ⟨(by intro j hj; cases hj; exact hi), p, ps, rfl⟩)⟩⟩
          | err => exact absurd rfl b2
          | panic => exact absurd rfl b3
          | bad w => exact absurd rfl (b1 w)
          | envBad =>
            simp only [bindO_envBad', Res.ofOutcome]
            exact ⟨by intro w; simp, fun h => absurd rfl h⟩
      | err =>
        -- `alloc_layout` never returns `Err`
        have h4 := (allocLayout_eq (E := E) (sz := esz * n) (al := eal) s).2.2.2.1
        rw [hr] at h4
        exact absurd rfl h4
      | panic =>
        simp only [bindO_panic, Res.ofOutcome]
        have hfail := sp.fail (Or.inr rfl)
        exact ⟨by intro w; simp, fun _ => ⟨allocPost_fail_live inv sp (Or.inr rfl), allocPost_ledger sp (by simp),
          sp.mem_eq, Persist.of_eq hfail.1, Or.inl ⟨rfl, hfail.1⟩⟩⟩
      | bad w => exact absurd rfl (sp.nobad w)
      | envBad =>
        simp only [bindO_envBad', Res.ofOutcome]
        exact ⟨by intro w; simp, fun h => absurd rfl h⟩

/-! ## the statements -/

/-- **1. Well-formedness is preserved** (unless the allocator broke its contract). -/
theorem sliceTryFillIn_wf {E esz eal n} (hE : EnvOK E) {s : St} (h : ArenaWF E s.a) (errat : Option Nat)
    (inner : List Inner) (hA : IsPow2 eal) (heal : eal ≤ 2 ^ 63) (hin : ∀ i ∈ inner, InnerValid i)
    (hne : (sliceTryFillIn E esz eal n errat inner s).2 ≠ .envBad) :
    ArenaWF E (sliceTryFillIn E esz eal n errat inner s).1.a :=
  ((sliceTryFillIn_main hE errat inner s [] (init_live s h rfl) hA heal hin).2 hne).live.wf

/-- **2. No assertion fires, no unchecked arithmetic wraps**: never `Res.bad _` from a well-formed state. -/
theorem sliceTryFillIn_nobad {E esz eal n} (hE : EnvOK E) {s : St} (h : ArenaWF E s.a) (errat : Option Nat)
    (inner : List Inner) (hA : IsPow2 eal) (heal : eal ≤ 2 ^ 63) (hin : ∀ i ∈ inner, InnerValid i) :
    ∀ w, (sliceTryFillIn E esz eal n errat inner s).2 ≠ .bad w :=
  (sliceTryFillIn_main hE errat inner s [] (init_live s h rfl) hA heal hin).1

/-- **3a. Ledger step**: only refused requests and chunk acquisitions (the form `sysStep_ledger` uses for C03). -/
theorem sliceTryFillIn_ledgerStep {E esz eal n} (hE : EnvOK E) {s : St} (h : ArenaWF E s.a) (errat : Option Nat)
    (inner : List Inner) (hA : IsPow2 eal) (heal : eal ≤ 2 ^ 63) (hin : ∀ i ∈ inner, InnerValid i)
    (hne : (sliceTryFillIn E esz eal n errat inner s).2 ≠ .envBad) :
    LedgerStep s (sliceTryFillIn E esz eal n errat inner s).1 :=
  ((sliceTryFillIn_main hE errat inner s [] (init_live s h rfl) hA heal hin).2 hne).ledger

/-- **3b. The allocator ledger stays equal to the chunk list** (C03's invariant). -/
theorem sliceTryFillIn_ledger {E esz eal n} (hE : EnvOK E) {s : St} (h : ArenaWF E s.a) (errat : Option Nat)
    (inner : List Inner) (hA : IsPow2 eal) (heal : eal ≤ 2 ^ 63) (hin : ∀ i ∈ inner, InnerValid i)
    (hl : Ledger s) (hne : (sliceTryFillIn E esz eal n errat inner s).2 ≠ .envBad) :
    Ledger (sliceTryFillIn E esz eal n errat inner s).1 :=
  (sliceTryFillIn_ledgerStep hE h errat inner hA heal hin hne).preserves hl

/-- **3c. Only `malloc` events are emitted, nothing is freed**: the event log grows by `malloc`s only. -/
theorem sliceTryFillIn_only_mallocs {E esz eal n} (hE : EnvOK E) {s : St} (h : ArenaWF E s.a) (errat : Option Nat)
    (inner : List Inner) (hA : IsPow2 eal) (heal : eal ≤ 2 ^ 63) (hin : ∀ i ∈ inner, InnerValid i)
    (hne : (sliceTryFillIn E esz eal n errat inner s).2 ≠ .envBad) :
    ∃ ms, (sliceTryFillIn E esz eal n errat inner s).1.evs = s.evs ++ ms ∧
      ∀ e ∈ ms, ∃ sz al r, e = Ev.malloc sz al r :=
  (sliceTryFillIn_ledgerStep hE h errat inner hA heal hin hne).onlyMallocs

/-- **4. (C11) Blocks the closure allocated and kept stay valid and untouched** when the closure fails
(the form of `C11.inner_blocks_kept`): after a failed fill every block that was live on entry and
every block the closure kept satisfies the live-block invariant (inside the allocated part of a held
chunk, pairwise disjoint), although the slice itself was given back with `dealloc`. -/
theorem sliceTryFillIn_blocks_kept {E esz eal n} (hE : EnvOK E) (errat : Option Nat) (inner : List Inner) (y : Sys)
    (inv : LiveInv E y) (hA : IsPow2 eal) (heal : eal ≤ 2 ^ 63) (hin : ∀ i ∈ inner, InnerValid i) (ps : List Nat)
    (hres : (sliceTryFillIn E esz eal n errat inner y.st).2 = .ierr ps) :
    LiveInv E ⟨(sliceTryFillIn E esz eal n errat inner y.st).1, y.live ++ keptBlocks inner ps⟩ := by
  obtain ⟨s, live⟩ := y
  have h := ((sliceTryFillIn_main hE errat inner s live inv hA heal hin).2 (by rw [hres]; simp)).live
  rw [hres] at h
  exact h

/-- 4, explicit form: each kept block of non-zero size lies between the finger and the footer of a
chunk of the resulting arena, `MIN_ALIGN`-aligned, non-null -/
theorem sliceTryFillIn_kept_inChunk {E esz eal n} (hE : EnvOK E) (errat : Option Nat) (inner : List Inner) (y : Sys)
    (inv : LiveInv E y) (hA : IsPow2 eal) (heal : eal ≤ 2 ^ 63) (hin : ∀ i ∈ inner, InnerValid i) (ps : List Nat)
    (hres : (sliceTryFillIn E esz eal n errat inner y.st).2 = .ierr ps) :
    ∀ b ∈ keptBlocks inner ps, BlockInv (sliceTryFillIn E esz eal n errat inner y.st).1.a b ∧
      (0 < b.size → InChunk (sliceTryFillIn E esz eal n errat inner y.st).1.a b.ptr b.size) := by
  intro b hb
  have h := (sliceTryFillIn_blocks_kept hE errat inner y inv hA heal hin ps hres).blocks b
    (List.mem_append_right _ hb)
  refine ⟨h, fun hpos => ?_⟩
  rcases h.2.2.2 with h0 | h1
  · omega
  · exact h1

/-- on the error path (`errat = some i`, `i < n`) the call hands back the closure's error with the
pointers the closure obtained — or the reservation failed (panic, arena unchanged) -/
theorem sliceTryFillIn_err_result {E esz eal n i} (hE : EnvOK E) (inner : List Inner) {s : St} (h : ArenaWF E s.a)
    (hA : IsPow2 eal) (heal : eal ≤ 2 ^ 63) (hin : ∀ j ∈ inner, InnerValid j) (hi : i < n)
    (hne : (sliceTryFillIn E esz eal n (some i) inner s).2 ≠ .envBad) :
    ((sliceTryFillIn E esz eal n (some i) inner s).2 = .panic ∧ (sliceTryFillIn E esz eal n (some i) inner s).1.a = s.a) ∨
    ∃ ps, (sliceTryFillIn E esz eal n (some i) inner s).2 = .ierr ps := by
  rcases ((sliceTryFillIn_main hE (some i) inner s [] (init_live s h rfl) hA heal hin).2 hne).shape with h1 | h1 | h1
  · exact Or.inl h1
  · exact Or.inr h1.2
  · exact absurd hi (h1.1 i rfl)

/-- the success path: the slice and the kept blocks join the live set -/
theorem sliceTryFillIn_ok_live {E esz eal n} (hE : EnvOK E) (errat : Option Nat) (inner : List Inner) (y : Sys)
    (inv : LiveInv E y) (hA : IsPow2 eal) (heal : eal ≤ 2 ^ 63) (hin : ∀ i ∈ inner, InnerValid i) (p : Nat) (ps : List Nat)
    (hres : (sliceTryFillIn E esz eal n errat inner y.st).2 = .ptrIn p ps) :
    LiveInv E ⟨(sliceTryFillIn E esz eal n errat inner y.st).1, y.live ++ [⟨p, esz * n⟩] ++ keptBlocks inner ps⟩ := by
  obtain ⟨s, live⟩ := y
  have h := ((sliceTryFillIn_main hE errat inner s live inv hA heal hin).2 (by rw [hres]; simp)).live
  rw [hres] at h
  exact h

/-- (C02) the arena writes no memory -/
theorem sliceTryFillIn_mem {E esz eal n} (hE : EnvOK E) {s : St} (h : ArenaWF E s.a) (errat : Option Nat)
    (inner : List Inner) (hA : IsPow2 eal) (heal : eal ≤ 2 ^ 63) (hin : ∀ i ∈ inner, InnerValid i)
    (hne : (sliceTryFillIn E esz eal n errat inner s).2 ≠ .envBad) :
    (sliceTryFillIn E esz eal n errat inner s).1.mem = s.mem :=
  ((sliceTryFillIn_main hE errat inner s [] (init_live s h rfl) hA heal hin).2 hne).mem

/-- sanity: with a closure that does not touch the arena the composite is `Op.tfill` (same final state) -/
theorem sliceTryFillIn_nil {E esz eal n} (errat : Option Nat) (s : St) :
    (sliceTryFillIn E esz eal n errat [] s).1 = (sliceTryFill E esz eal n errat s).1 := by
  unfold sliceTryFillIn sliceTryFill
  cases arrayLayout esz eal n with
  | none => rfl
  | some total =>
    simp only [runInner, ite_self]
    cases hr : allocLayout E total eal s with
    | mk s1 o1 =>
      cases o1 with
      | ok p =>
        simp only [bindO_ok]
        cases errat with
        | none => rfl
        | some i =>
          simp only
          by_cases hi : i < n
          · simp only [hi, ↓reduceIte]
          · simp only [hi, ↓reduceIte]
      | err => rfl
      | panic => rfl
      | bad w => rfl
      | envBad => rfl

end Bump

#print axioms Bump.LedgerStep.onlyMallocs
#print axioms Bump.dealloc_live_mid
#print axioms Bump.fillInner_spec
#print axioms Bump.sliceTryFillIn_main
#print axioms Bump.sliceTryFillIn_wf
#print axioms Bump.sliceTryFillIn_nobad
#print axioms Bump.sliceTryFillIn_ledgerStep
#print axioms Bump.sliceTryFillIn_ledger
#print axioms Bump.sliceTryFillIn_only_mallocs
#print axioms Bump.sliceTryFillIn_blocks_kept
#print axioms Bump.sliceTryFillIn_kept_inChunk
#print axioms Bump.sliceTryFillIn_err_result
#print axioms Bump.sliceTryFillIn_ok_live
#print axioms Bump.sliceTryFillIn_mem
#print axioms Bump.sliceTryFillIn_nil
