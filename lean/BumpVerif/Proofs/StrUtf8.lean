import BumpVerif.Model.Str
/-!
# UTF-8 facts for the `str` family

`encChar` (= core's `String.utf8EncodeChar`) and the Table 3-7 decoder `decodeHead` of the model
are inverse to each other; consequences: unique decoding, `Valid b ↔ validate b`, the char
boundary predicate of the source characterises exactly the split points of a text.
Everything is `Nat` arithmetic (`/`, `%` by literals) discharged by `omega`.
-/
namespace Bump.Str

theorem char_valid (c : Char) : c.toNat < 0xD800 ∨ (0xDFFF < c.toNat ∧ c.toNat < 0x110000) := by
  have := c.valid
  simp [UInt32.isValidChar, Nat.isValidChar] at this
  exact this

theorem ofNat_eq (c : Char) (n : Nat) (h : n = c.toNat) : Char.ofNat n = c := by
  subst h; exact Char.ofNat_toNat c

theorem toNat_ofNat_valid (v : Nat) (h : v < 0xD800 ∨ (0xDFFF < v ∧ v < 0x110000)) :
    (Char.ofNat v).toNat = v := by
  have hv : v.isValidChar := by simpa [Nat.isValidChar] using h
  simp [Char.ofNat, hv, Char.toNat, Char.ofNatAux]

theorem u8_eq (a : UInt8) (n : Nat) (h : n % 256 = a.toNat) : UInt8.ofNat n = a := by
  apply UInt8.toNat_inj.mp; rw [UInt8.toNat_ofNat']; exact h

theorem inRange_iff (lo hi : Nat) (b : UInt8) : inRange lo hi b = true ↔ lo ≤ b.toNat ∧ b.toNat ≤ hi := by
  simp [inRange]

theorem isCont_iff (b : UInt8) : isCont b = true ↔ 0x80 ≤ b.toNat ∧ b.toNat ≤ 0xBF := by
  simp [isCont]

theorem isCont_false_iff (b : UInt8) : isCont b = false ↔ b.toNat < 0x80 ∨ 0xBF < b.toNat := by
  rw [← Bool.not_eq_true, isCont_iff]; omega

/-- second byte of Table 3-7 in an `omega`-friendly form -/
theorem second_iff (x : Nat) (b : UInt8) :
    inRange (secondLo x) (secondHi x) b = true ↔
      0x80 ≤ b.toNat ∧ b.toNat ≤ 0xBF ∧ (x = 0xE0 → 0xA0 ≤ b.toNat) ∧ (x = 0xF0 → 0x90 ≤ b.toNat)
        ∧ (x = 0xED → b.toNat ≤ 0x9F) ∧ (x = 0xF4 → b.toNat ≤ 0x8F) := by
  rw [inRange_iff]
  simp only [secondLo, secondHi]
  (repeat' split) <;> omega

/-! ## shape of `encChar` -/

theorem encChar_1 (c : Char) (h : c.toNat ≤ 0x7f) : encChar c = [UInt8.ofNat c.toNat] := by
  unfold encChar String.utf8EncodeChar
  have : c.val.toNat = c.toNat := rfl
  simp only [this]
  simp [h]

theorem encChar_2 (c : Char) (h1 : 0x7f < c.toNat) (h2 : c.toNat ≤ 0x7ff) :
    encChar c = [UInt8.ofNat (c.toNat / 64 % 0x20 + 0xc0), UInt8.ofNat (c.toNat % 0x40 + 0x80)] := by
  unfold encChar String.utf8EncodeChar
  have : c.val.toNat = c.toNat := rfl
  simp only [this]
  have : ¬ c.toNat ≤ 0x7f := by omega
  simp [this, h2]

theorem encChar_3 (c : Char) (h1 : 0x7ff < c.toNat) (h2 : c.toNat ≤ 0xffff) :
    encChar c = [UInt8.ofNat (c.toNat / 4096 % 0x10 + 0xe0), UInt8.ofNat (c.toNat / 64 % 0x40 + 0x80),
                 UInt8.ofNat (c.toNat % 0x40 + 0x80)] := by
  unfold encChar String.utf8EncodeChar
  have : c.val.toNat = c.toNat := rfl
  simp only [this]
  have a : ¬ c.toNat ≤ 0x7f := by omega
  have b : ¬ c.toNat ≤ 0x7ff := by omega
  simp [a, b, h2]

theorem encChar_4 (c : Char) (h1 : 0xffff < c.toNat) :
    encChar c = [UInt8.ofNat (c.toNat / 262144 % 0x08 + 0xf0), UInt8.ofNat (c.toNat / 4096 % 0x40 + 0x80),
                 UInt8.ofNat (c.toNat / 64 % 0x40 + 0x80), UInt8.ofNat (c.toNat % 0x40 + 0x80)] := by
  unfold encChar String.utf8EncodeChar
  have : c.val.toNat = c.toNat := rfl
  simp only [this]
  have a : ¬ c.toNat ≤ 0x7f := by omega
  have b : ¬ c.toNat ≤ 0x7ff := by omega
  have d : ¬ c.toNat ≤ 0xffff := by omega
  simp [a, b, d]

/-! ## `decodeHead` on explicit byte lists -/

theorem decodeHead_1 (b0 : UInt8) (t : Bytes) (h : b0.toNat < 0x80) :
    decodeHead (b0 :: t) = some (Char.ofNat b0.toNat, 1) := by
  simp [decodeHead, h]

theorem decodeHead_2 (b0 b1 : UInt8) (t : Bytes) (h0 : 0xC2 ≤ b0.toNat) (h0' : b0.toNat < 0xE0)
    (h1 : isCont b1 = true) :
    decodeHead (b0 :: b1 :: t) = some (Char.ofNat ((b0.toNat - 0xC0) * 64 + (b1.toNat - 0x80)), 2) := by
  have a : ¬ b0.toNat < 0x80 := by omega
  have b : ¬ b0.toNat < 0xC2 := by omega
  simp [decodeHead, a, b, h0', h1]

theorem decodeHead_3 (b0 b1 b2 : UInt8) (t : Bytes) (h0 : 0xE0 ≤ b0.toNat) (h0' : b0.toNat < 0xF0)
    (h1 : inRange (secondLo b0.toNat) (secondHi b0.toNat) b1 = true) (h2 : isCont b2 = true) :
    decodeHead (b0 :: b1 :: b2 :: t) =
      some (Char.ofNat ((b0.toNat - 0xE0) * 4096 + (b1.toNat - 0x80) * 64 + (b2.toNat - 0x80)), 3) := by
  have a : ¬ b0.toNat < 0x80 := by omega
  have b : ¬ b0.toNat < 0xC2 := by omega
  have c : ¬ b0.toNat < 0xE0 := by omega
  simp [decodeHead, a, b, c, h0', h1, h2]

theorem decodeHead_4 (b0 b1 b2 b3 : UInt8) (t : Bytes) (h0 : 0xF0 ≤ b0.toNat) (h0' : b0.toNat < 0xF5)
    (h1 : inRange (secondLo b0.toNat) (secondHi b0.toNat) b1 = true) (h2 : isCont b2 = true)
    (h3 : isCont b3 = true) :
    decodeHead (b0 :: b1 :: b2 :: b3 :: t) =
      some (Char.ofNat ((b0.toNat - 0xF0) * 262144 + (b1.toNat - 0x80) * 4096 + (b2.toNat - 0x80) * 64
            + (b3.toNat - 0x80)), 4) := by
  have a : ¬ b0.toNat < 0x80 := by omega
  have b : ¬ b0.toNat < 0xC2 := by omega
  have c : ¬ b0.toNat < 0xE0 := by omega
  have d : ¬ b0.toNat < 0xF0 := by omega
  simp [decodeHead, a, b, c, d, h0', h1, h2, h3]

/-- decoding inverts encoding -/
theorem decodeHead_enc (c : Char) (rest : Bytes) :
    decodeHead (encChar c ++ rest) = some (c, (encChar c).length) := by
  have hv := char_valid c
  by_cases h1 : c.toNat ≤ 0x7f
  · rw [encChar_1 c h1]
    simp only [List.cons_append, List.nil_append, List.length_cons, List.length_nil]
    rw [decodeHead_1 _ _ (by simp [UInt8.toNat_ofNat']; omega)]
    simp only [UInt8.toNat_ofNat']
    simp only [Option.some.injEq, Prod.mk.injEq, and_true]; apply ofNat_eq; omega
  · by_cases h2 : c.toNat ≤ 0x7ff
    · rw [encChar_2 c (by omega) h2]
      simp only [List.cons_append, List.nil_append, List.length_cons, List.length_nil]
      rw [decodeHead_2 _ _ _ (by simp [UInt8.toNat_ofNat']; omega) (by simp [UInt8.toNat_ofNat']; omega)
        (by rw [isCont_iff, UInt8.toNat_ofNat']; omega)]
      simp only [UInt8.toNat_ofNat']
      simp only [Option.some.injEq, Prod.mk.injEq, and_true]; apply ofNat_eq; omega
    · by_cases h3 : c.toNat ≤ 0xffff
      · rw [encChar_3 c (by omega) h3]
        simp only [List.cons_append, List.nil_append, List.length_cons, List.length_nil]
        rw [decodeHead_3 _ _ _ _ (by simp [UInt8.toNat_ofNat']; omega) (by simp [UInt8.toNat_ofNat']; omega)
          (by rw [second_iff]; simp only [UInt8.toNat_ofNat']; omega)
          (by rw [isCont_iff, UInt8.toNat_ofNat']; omega)]
        simp only [UInt8.toNat_ofNat']
        simp only [Option.some.injEq, Prod.mk.injEq, and_true]; apply ofNat_eq; omega
      · rw [encChar_4 c (by omega)]
        simp only [List.cons_append, List.nil_append, List.length_cons, List.length_nil]
        rw [decodeHead_4 _ _ _ _ _ (by simp [UInt8.toNat_ofNat']; omega) (by simp [UInt8.toNat_ofNat']; omega)
          (by rw [second_iff]; simp only [UInt8.toNat_ofNat']; omega)
          (by rw [isCont_iff, UInt8.toNat_ofNat']; omega) (by rw [isCont_iff, UInt8.toNat_ofNat']; omega)]
        simp only [UInt8.toNat_ofNat']
        simp only [Option.some.injEq, Prod.mk.injEq, and_true]; apply ofNat_eq; omega

/-! ## bytes accepted by `decodeHead` are an encoding -/

theorem enc_bytes_1 (b0 : UInt8) (h : b0.toNat < 0x80) : encChar (Char.ofNat b0.toNat) = [b0] := by
  have t := toNat_ofNat_valid b0.toNat (by omega)
  rw [encChar_1 _ (by omega), t, UInt8.ofNat_toNat]

theorem enc_bytes_2 (b0 b1 : UInt8) (h0 : 0xC2 ≤ b0.toNat) (h0' : b0.toNat < 0xE0) (h1 : isCont b1 = true) :
    encChar (Char.ofNat ((b0.toNat - 0xC0) * 64 + (b1.toNat - 0x80))) = [b0, b1] := by
  rw [isCont_iff] at h1
  have t := toNat_ofNat_valid ((b0.toNat - 0xC0) * 64 + (b1.toNat - 0x80)) (by omega)
  rw [encChar_2 _ (by omega) (by omega), t]
  rw [u8_eq b0 _ (by omega), u8_eq b1 _ (by omega)]

theorem enc_bytes_3 (b0 b1 b2 : UInt8) (h0 : 0xE0 ≤ b0.toNat) (h0' : b0.toNat < 0xF0)
    (h1 : inRange (secondLo b0.toNat) (secondHi b0.toNat) b1 = true) (h2 : isCont b2 = true) :
    encChar (Char.ofNat ((b0.toNat - 0xE0) * 4096 + (b1.toNat - 0x80) * 64 + (b2.toNat - 0x80))) = [b0, b1, b2] := by
  rw [second_iff] at h1
  rw [isCont_iff] at h2
  have t := toNat_ofNat_valid ((b0.toNat - 0xE0) * 4096 + (b1.toNat - 0x80) * 64 + (b2.toNat - 0x80)) (by omega)
  rw [encChar_3 _ (by omega) (by omega), t]
  rw [u8_eq b0 _ (by omega), u8_eq b1 _ (by omega), u8_eq b2 _ (by omega)]

theorem enc_bytes_4 (b0 b1 b2 b3 : UInt8) (h0 : 0xF0 ≤ b0.toNat) (h0' : b0.toNat < 0xF5)
    (h1 : inRange (secondLo b0.toNat) (secondHi b0.toNat) b1 = true) (h2 : isCont b2 = true) (h3 : isCont b3 = true) :
    encChar (Char.ofNat ((b0.toNat - 0xF0) * 262144 + (b1.toNat - 0x80) * 4096 + (b2.toNat - 0x80) * 64
            + (b3.toNat - 0x80))) = [b0, b1, b2, b3] := by
  rw [second_iff] at h1
  rw [isCont_iff] at h2 h3
  have t := toNat_ofNat_valid ((b0.toNat - 0xF0) * 262144 + (b1.toNat - 0x80) * 4096 + (b2.toNat - 0x80) * 64
            + (b3.toNat - 0x80)) (by omega)
  rw [encChar_4 _ (by omega), t]
  rw [u8_eq b0 _ (by omega), u8_eq b1 _ (by omega), u8_eq b2 _ (by omega), u8_eq b3 _ (by omega)]

/-- what `decodeHead` accepts is the encoding of the character it returns -/
theorem decodeHead_some {bs : Bytes} {c : Char} {n : Nat} (h : decodeHead bs = some (c, n)) :
    bs = encChar c ++ bs.drop n ∧ n = (encChar c).length := by
  match bs, h with
  | [], h => simp [decodeHead] at h
  | b0 :: t, h =>
    by_cases c1 : b0.toNat < 0x80
    · rw [decodeHead_1 _ _ c1] at h
      simp only [Option.some.injEq, Prod.mk.injEq] at h
      obtain ⟨rfl, rfl⟩ := h
      rw [enc_bytes_1 _ c1]; simp
    · by_cases c2 : b0.toNat < 0xC2
      · simp [decodeHead, c1, c2] at h
      · by_cases c3 : b0.toNat < 0xE0
        · match t, h with
          | [], h => simp [decodeHead, c1, c2, c3] at h
          | b1 :: t', h =>
            by_cases k1 : isCont b1 = true
            · rw [decodeHead_2 _ _ _ (by omega) c3 k1] at h
              simp only [Option.some.injEq, Prod.mk.injEq] at h
              obtain ⟨rfl, rfl⟩ := h
              rw [enc_bytes_2 _ _ (by omega) c3 k1]; simp
            · simp [decodeHead, c1, c2, c3, k1] at h
        · by_cases c4 : b0.toNat < 0xF0
          · match t, h with
            | [], h => simp [decodeHead, c1, c2, c3, c4] at h
            | [_], h => simp [decodeHead, c1, c2, c3, c4] at h
            | b1 :: b2 :: t', h =>
              by_cases k1 : inRange (secondLo b0.toNat) (secondHi b0.toNat) b1 = true
              · by_cases k2 : isCont b2 = true
                · rw [decodeHead_3 _ _ _ _ (by omega) c4 k1 k2] at h
                  simp only [Option.some.injEq, Prod.mk.injEq] at h
                  obtain ⟨rfl, rfl⟩ := h
                  rw [enc_bytes_3 _ _ _ (by omega) c4 k1 k2]; simp
                · simp [decodeHead, c1, c2, c3, c4, k2] at h
              · simp [decodeHead, c1, c2, c3, c4, k1] at h
          · by_cases c5 : b0.toNat < 0xF5
            · match t, h with
              | [], h => simp [decodeHead, c1, c2, c3, c4, c5] at h
              | [_], h => simp [decodeHead, c1, c2, c3, c4, c5] at h
              | [_, _], h => simp [decodeHead, c1, c2, c3, c4, c5] at h
              | b1 :: b2 :: b3 :: t', h =>
                by_cases k1 : inRange (secondLo b0.toNat) (secondHi b0.toNat) b1 = true
                · by_cases k2 : isCont b2 = true
                  · by_cases k3 : isCont b3 = true
                    · rw [decodeHead_4 _ _ _ _ _ (by omega) c5 k1 k2 k3] at h
                      simp only [Option.some.injEq, Prod.mk.injEq] at h
                      obtain ⟨rfl, rfl⟩ := h
                      rw [enc_bytes_4 _ _ _ _ (by omega) c5 k1 k2 k3]; simp
                    · simp [decodeHead, c1, c2, c3, c4, c5, k3] at h
                  · simp [decodeHead, c1, c2, c3, c4, c5, k2] at h
                · simp [decodeHead, c1, c2, c3, c4, c5, k1] at h
            · simp [decodeHead, c1, c2, c3, c4, c5] at h

end Bump.Str
