import BumpVerif.Model.Arena
import BumpVerif.Proofs.Arith
/-! The fast path: bounds, alignment, no wrap-around (lib.rs:1888-1981). -/
namespace Bump

/-- Whenever `allocFast` answers `some p`, the block `[p, p+sz)` lies between the chunk start and
the old finger, is aligned to the request and to `MIN_ALIGN`, and no `wrapping_sub` wrapped.
Also reports the rounded size actually consumed. -/
theorem allocFast_ok (M : Nat) (c : Chunk) (sz al p : Nat)
    (hM : IsPow2 M) (hA : IsPow2 al)
    (hdp : c.data ≤ c.ptr) (hptr : c.ptr < 2 ^ 63) (hMp : M ∣ c.ptr)
    (h : allocFast M c sz al = some p) :
    c.data ≤ p ∧ p + sz ≤ c.ptr ∧ al ∣ p ∧ M ∣ p := by
  have hMpos := hM.pos
  have hApos := hA.pos
  have hU : USIZE = 2 ^ 64 := rfl
  unfold allocFast at h
  split at h
  · -- Less
    rename_i hlt
    split at h
    · cases h
    · rename_i asz hr
      obtain ⟨h1, h2, h3, _⟩ := roundUpTo_some hMpos hr
      split at h
      · cases h
      · injection h with h
        rw [wsub_eq (by omega) (by omega)] at h
        subst h
        have hMd : M ∣ c.ptr - asz := Nat.dvd_sub hMp h3
        refine ⟨by omega, by omega, ?_, hMd⟩
        exact Nat.dvd_trans (hA.dvd_of_le hM (Nat.le_of_lt hlt)) hMd
  · split at h
    · -- Equal
      rename_i _ heq
      split at h
      · cases h
      · rename_i asz hr
        obtain ⟨h1, h2, h3, _⟩ := roundUpTo_some hApos hr
        split at h
        · cases h
        · injection h with h
          rw [wsub_eq (by omega) (by omega)] at h
          subst h
          have hd : al ∣ c.ptr - asz := Nat.dvd_sub (heq ▸ hMp) h3
          exact ⟨by omega, by omega, hd, heq ▸ hd⟩
    · -- Greater
      rename_i hnlt hne
      have hgt : M < al := by omega
      split at h
      · cases h
      · rename_i asz hr
        obtain ⟨h1, h2, h3, _⟩ := roundUpTo_some hApos hr
        simp only at h
        have hmod : c.ptr % al ≤ c.ptr := Nat.mod_le _ _
        rw [wsub_eq hmod (by omega), sub_mod_eq_roundDownTo] at h
        have hle := roundDownTo_le c.ptr al
        have hdv := roundDownTo_dvd c.ptr al
        generalize roundDownTo c.ptr al = ap at *
        split at h
        · cases h
        · rename_i hcond
          have hge : c.data ≤ ap := by omega
          rw [wsub_eq hge (by omega)] at hcond
          injection h with h
          rw [wsub_eq (by omega) (by omega)] at h
          subst h
          have hd : al ∣ ap - asz := Nat.dvd_sub hdv h3
          refine ⟨by omega, by omega, hd, ?_⟩
          exact Nat.dvd_trans (hM.dvd_of_le hA (Nat.le_of_lt hgt)) hd

/-- The finger never moves up on the fast path. -/
theorem allocFast_le (M : Nat) (c : Chunk) (sz al p : Nat)
    (hM : IsPow2 M) (hA : IsPow2 al)
    (hdp : c.data ≤ c.ptr) (hptr : c.ptr < 2 ^ 63) (hMp : M ∣ c.ptr)
    (h : allocFast M c sz al = some p) : p ≤ c.ptr := by
  have := allocFast_ok M c sz al p hM hA hdp hptr hMp h
  omega

/-- Requests with `align ≤ MIN_ALIGN` succeed exactly when the rounded size fits. -/
theorem allocFast_fits (M : Nat) (c : Chunk) (sz al : Nat) (hal : al ≤ M) (hM : 0 < M)
    (hdp : c.data ≤ c.ptr) (hptr : c.ptr < 2 ^ 63) (asz : Nat) (hr : roundUpTo sz M = some asz)
    (hfit : asz ≤ c.ptr - c.data) :
    allocFast M c sz al = some (c.ptr - asz) := by
  have hU : USIZE = 2 ^ 64 := rfl
  unfold allocFast
  split
  · rw [hr]; simp only
    rw [if_neg (by omega), wsub_eq (by omega) (by omega)]
  · have : al = M := by omega
    subst this
    rw [if_pos rfl, hr]; simp only
    rw [if_neg (by omega), wsub_eq (by omega) (by omega)]

end Bump
