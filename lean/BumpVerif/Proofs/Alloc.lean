import BumpVerif.Proofs.Slow
/-! `alloc_layout_slow`, `try_alloc_layout`, `alloc_layout`: total, assertion-free, and what
they do to the arena. -/
namespace Bump
open Gen

theorem roundUpTo_mono_dvd {n d1 d2 r1 r2 : Nat} (h1 : 0 < d1) (h2 : 0 < d2) (hd : d1 ∣ d2)
    (e1 : roundUpTo n d1 = some r1) (e2 : roundUpTo n d2 = some r2) : r1 ≤ r2 := by
  obtain ⟨a, _, c, _⟩ := roundUpTo_some h2 e2
  exact roundUpTo_le h1 e1 (Nat.dvd_trans hd c) a

/-- A chunk with enough room below its finger serves the request on the fast path. -/
theorem allocFast_of_room (M : Nat) (c : Chunk) (sz al rs : Nat) (hM : IsPow2 M) (hA : IsPow2 al)
    (hdp : c.data ≤ c.ptr) (hptr : c.ptr < 2 ^ 63) (hald : al ∣ c.data)
    (hrs : roundUpTo sz (max al M) = some rs) (hroom : rs ≤ c.ptr - c.data) :
    ∃ p, allocFast M c sz al = some p := by
  have hU : USIZE = 2 ^ 64 := rfl
  by_cases hle : al ≤ M
  · rw [Nat.max_eq_right hle] at hrs
    exact ⟨_, allocFast_fits M c sz al hle hM.pos hdp hptr rs hrs hroom⟩
  · have hgt : M < al := by omega
    rw [Nat.max_eq_left (by omega)] at hrs
    obtain ⟨r1, r2, r3, r4⟩ := roundUpTo_some hA.pos hrs
    unfold allocFast
    rw [if_neg (by omega), if_neg (by omega), hrs]
    simp only
    have hmod : c.ptr % al ≤ c.ptr := Nat.mod_le _ _
    rw [wsub_eq hmod (by omega), sub_mod_eq_roundDownTo]
    have hge : c.data + rs ≤ roundDownTo c.ptr al :=
      le_roundDownTo hA.pos (Nat.dvd_add hald r3) (by omega)
    have hle' := roundDownTo_le c.ptr al
    generalize roundDownTo c.ptr al = ap at *
    rw [wsub_eq (by omega) (by omega)]
    rw [if_neg (by omega)]
    exact ⟨_, rfl⟩

/-- how a successful allocation of `[p, p+sz)` changed the chunk list -/
def AllocShape (E : Nat) (a a' : Arena) (p sz : Nat) : Prop :=
  (a.chunks = [] ∧ a' = a ∧ p = E ∧ sz = 0) ∨
  (∃ c cs, a.chunks = c :: cs ∧ a'.chunks = { c with ptr := p } :: cs ∧ c.data ≤ p ∧ p + sz ≤ c.ptr) ∨
  (∃ c, a'.chunks = { c with ptr := p } :: a.chunks ∧ c.data ≤ p ∧ p + sz ≤ c.footer ∧ c.ptr = c.footer ∧
      (∀ h ∈ a.chunks, Disj c.data c.size h.data h.size) ∧ Disj c.data c.size E FOOTER_SIZE ∧
      c.ab = a.allocatedBytes E + usable c)

/-- which fast-path call produced the block: on the arena as it was, or on the arena with the
fresh chunk `c` (finger at its footer) pushed -/
def AllocVia (E : Nat) (a a' : Arena) (p sz al : Nat) : Prop :=
  tryFast E a sz al = .ok (some (a', p)) ∨
  (∃ c, c.ptr = c.footer ∧ a'.chunks = { c with ptr := p } :: a.chunks ∧
     tryFast E { a with chunks := c :: a.chunks } sz al = .ok (some (a', p)))

/-- postcondition of the allocation entry points -/
structure AllocPost (E : Nat) (s s' : St) (sz al : Nat) (o : Outcome Nat) : Prop where
  nobad : ∀ w, o ≠ .bad w
  mem_eq : s'.mem = s.mem
  m_eq : s'.a.M = s.a.M
  lim_eq : s'.a.limit = s.a.limit
  via : ∀ p, o = .ok p → AllocVia E s.a s'.a p sz al
  ok : ∀ p, o = .ok p → ArenaWF E s'.a ∧ al ∣ p ∧ s.a.M ∣ p ∧ 0 < p ∧ AllocShape E s.a s'.a p sz ∧
      ∃ refs, AllRefused refs ∧
        (s'.evs = s.evs ++ refs ∧ s'.a.chunks.length = s.a.chunks.length ∨
         ∃ c, s'.a.chunks = c :: s.a.chunks ∧ s'.evs = s.evs ++ refs ++ [.malloc c.size c.align (some c.data)] ∧
           0 < usable c ∧ (∀ L, s.a.limit = some L → s.a.allocatedBytes E + usable c ≤ L) ∧
           (∃ k, max (usable (s.a.cur E) * 2) (max sz DEFAULT_CHUNK_SIZE_WITHOUT_FOOTER) / 2 ^ k ≤ usable c))
  fail : o = .err ∨ o = .panic → s'.a = s.a ∧ ∃ refs, AllRefused refs ∧ s'.evs = s.evs ++ refs

theorem consChunk_wf {E a c d} (h : ArenaWF E a) (hf : FreshChunk E a.chunks a.M d (a.allocatedBytes E) c) :
    ArenaWF E { a with chunks := c :: a.chunks } := by
  refine ⟨h.mpow, h.mle, ?_, ?_, ?_, ?_, ?_⟩
  · intro x hx
    simp only [List.mem_cons] at hx
    rcases hx with rfl | hx
    · exact hf.wf
    · exact h.chunks x hx
  · have := h.ab
    have hs := hf.wf.size_ge
    have hn := hf.nswf_eq
    simp only [Chunk.footer] at hn
    simp only [Arena.cur, List.headD_cons, sumUsable, List.map_cons, List.sum_cons, usable]
    rw [hf.ab_eq]
    simp only [Arena.allocatedBytes] at *
    rw [this]
    simp only [sumUsable]
    omega
  · simp only [List.pairwise_cons]
    exact ⟨fun x hx => hf.disj x hx, h.disj⟩
  · intro x hx
    simp only [List.mem_cons] at hx
    rcases hx with rfl | hx
    · exact hf.sdisj
    · exact h.sdisj x hx
  · have := hf.total
    simp only [sumSize, List.map_cons, List.sum_cons] at *
    omega

theorem ab_le_sumSize {E a} (h : ArenaWF E a) : a.allocatedBytes E ≤ sumSize a.chunks := by
  unfold Arena.allocatedBytes
  rw [h.ab]
  unfold sumUsable sumSize usable
  generalize a.chunks = l
  induction l with
  | nil => simp
  | cons x xs ih => simp only [List.map_cons, List.sum_cons]; omega

end Bump

namespace Bump
open Gen

theorem checkedMul_two {n : Nat} (h : n ≤ 2 ^ 63 - 48) : checkedMul n 2 = some (n * 2) := by
  unfold checkedMul; rw [if_pos (by have : USIZE = 2 ^ 64 := rfl; omega)]

theorem allocSlow_spec {E sz al} (s : St) (hE : EnvOK E) (h : ArenaWF E s.a) (hA : IsPow2 al)
    (hlay : sz + al ≤ 2 ^ 63) :
    AllocPost E s (allocSlow E sz al s).1 sz al (allocSlow E sz al s).2 ∧ (allocSlow E sz al s).2 ≠ .panic := by
  have hU : USIZE = 2 ^ 64 := rfl
  obtain ⟨c1, c2, c3, c4, c5, c6, c7⟩ := cur_ok hE h
  have := FS; have := DF
  unfold allocSlow
  simp only
  rw [if_neg (by omega), checkedMul_two (by omega)]
  simp only
  have hbase : max (((s.a.cur E).size - FOOTER_SIZE) * 2) (max sz DEFAULT_CHUNK_SIZE_WITHOUT_FOOTER) ≤ 2 ^ 64 - 96 := by omega
  have hsp := slowLoop_spec (E := E) (held := s.a.chunks) (M := s.a.M) (limit := s.a.limit)
    (ab := s.a.allocatedBytes E) (sz := sz) (al := al) (rem := limitRemaining s.a E)
    (minNew := max sz DEFAULT_CHUNK_SIZE_WITHOUT_FOOTER) h.mpow h.mle hA hlay (by omega) (ab_le_sumSize h)
    69 _ s (by omega) hbase
  generalize slowLoop E s.a.chunks s.a.M s.a.limit (s.a.allocatedBytes E) sz al (limitRemaining s.a E)
    (max sz DEFAULT_CHUNK_SIZE_WITHOUT_FOOTER) 70 _ s = r at hsp
  obtain ⟨s1, o1⟩ := r
  obtain ⟨ha, hm, hc⟩ := hsp
  simp only at ha hm hc
  rcases hc with ⟨ho, refs, hev, hrf⟩ | ho | ⟨c, d, n0, refs, ho, hd, hfc, ⟨kc, hkc⟩, hfit, hrf, hev⟩
  · subst ho
    simp only [bindO]
    exact ⟨⟨(by intro w; simp), hm, (by rw [ha]), (by rw [ha]), (by intro p hp; cases hp), (by intro p hp; cases hp),
      fun _ => ⟨ha, refs, hrf, hev⟩⟩, by simp⟩
  · subst ho
    simp only [bindO]
    exact ⟨⟨(by intro w; simp), hm, (by rw [ha]), (by rw [ha]), (by intro p hp; cases hp), (by intro p hp; cases hp),
      (by intro hh; rcases hh with hh | hh <;> cases hh)⟩, by simp⟩
  · subst ho
    simp only [bindO, pureO]
    rw [ha]
    have hfc' : FreshChunk E s.a.chunks s.a.M d (s.a.allocatedBytes E) c := hfc
    have hwf' := consChunk_wf h hfc'
    -- the fresh chunk serves the request
    have hcur' : ({ s.a with chunks := c :: s.a.chunks } : Arena).cur E = c := by simp [Arena.cur]
    have hmaxpow : IsPow2 (max al s.a.M) := IsPow2.max hA h.mpow
    obtain ⟨rs', hrs'⟩ := roundUpTo_isSome (n := sz) (d := max al s.a.M) (by have := h.mle; omega)
    obtain ⟨rs, hrs, hrsle⟩ := hd.fits
    have hdal : IsPow2 d.align := by rw [hd.align_eq]; exact chunkAlign_pow2 h.mpow hA
    have hmaxdvd : max al s.a.M ∣ d.align := by
      apply hmaxpow.dvd_of_le hdal
      rw [hd.align_eq]; unfold chunkAlign; omega
    have hmono := roundUpTo_mono_dvd hmaxpow.pos hdal.pos hmaxdvd hrs' hrs
    have hptrc : c.ptr = c.data + d.nswf := by rw [hfc.ptr_eq, hfc.nswf_eq]
    have hchi := hfc.wf.hi
    have hcsz := hfc.wf.size_ge
    have hfl := footer_lt hfc.wf
    have hsz1 := hfc.size_eq
    have hsz2 := hd.size_eq
    obtain ⟨p, hp⟩ := allocFast_of_room s.a.M c sz al rs' h.mpow hA (hfc.wf.ptr_ge) (by omega)
      (Nat.dvd_trans hd.align_al hfc.al_dvd) hrs' (by omega)
    rcases tryFast_cases (sz := sz) (al := al) hE hwf' hA hlay with ⟨_, hn⟩ | ⟨a'', p', htf, hp', hwf'', eff⟩
    · rw [hcur'] at hn
      simp only at hn
      rw [hp] at hn; cases hn
    · rw [htf]
      simp only
      have hsh := eff.shape
      rcases hsh with ⟨hnil, _⟩ | ⟨c0, cs0, hc0, hc0', hge, hle⟩
      · simp at hnil
      · simp only [List.cons.injEq] at hc0
        obtain ⟨rfl, rfl⟩ := hc0
        refine ⟨⟨(by intro w; simp), hm, eff.m_eq, eff.lim_eq, ?_, ?_, (by intro hh; rcases hh with hh | hh <;> cases hh)⟩, by simp⟩
        · intro q hq
          cases hq
          exact Or.inr ⟨c, hfc.ptr_eq, hc0', htf⟩
        intro q hq
        cases hq
        refine ⟨hwf'', eff.al_dvd, eff.m_dvd, eff.nz, Or.inr (Or.inr ⟨c, hc0', hge, by rw [← hfc.ptr_eq]; exact hle,
          hfc.ptr_eq, hfc.disj, hfc.sdisj, ?_⟩), refs, hrf, Or.inr ⟨_, hc0', ?_, ?_, ?_, ?_⟩⟩
        · rw [hfc.ab_eq]; unfold usable; have := hd.size_eq; rw [hfc.size_eq]; omega
        · simpa using hev
        · have hus : usable { c with ptr := p' } = d.nswf := by
            unfold usable; show c.size - FOOTER_SIZE = _; rw [hfc.size_eq, hd.size_eq]; omega
          rw [hus]; exact hfc.nswf_pos
        · intro L hL
          have hus : usable { c with ptr := p' } = d.nswf := by
            unfold usable; show c.size - FOOTER_SIZE = _; rw [hfc.size_eq, hd.size_eq]; omega
          rw [hus]
          simp only [fitsUnderLimit, limitRemaining, hL, Option.map_some, decide_eq_true_eq] at hfit
          have hp0 : 0 < d.nswf := hfc.nswf_pos
          omega
        · have hus : usable { c with ptr := p' } = d.nswf := by
            unfold usable; show c.size - FOOTER_SIZE = _; rw [hfc.size_eq, hd.size_eq]; omega
          rw [hus]
          refine ⟨kc, ?_⟩
          have := hd.ge_req
          rw [hkc] at this
          exact this

end Bump

namespace Bump
open Gen

/-- `try_alloc_layout`: never panics, never trips an assertion -/
theorem tryAllocLayout_spec {E sz al} (s : St) (hE : EnvOK E) (h : ArenaWF E s.a) (hA : IsPow2 al)
    (hlay : sz + al ≤ 2 ^ 63) :
    AllocPost E s (tryAllocLayout E sz al s).1 sz al (tryAllocLayout E sz al s).2 ∧
    (tryAllocLayout E sz al s).2 ≠ .panic := by
  unfold tryAllocLayout
  rcases tryFast_cases (sz := sz) (al := al) hE h hA hlay with ⟨htf, _⟩ | ⟨a', p, htf, _, hwf', eff⟩
  · rw [htf]
    simp only [pureO, bindO]
    exact allocSlow_spec s hE h hA hlay
  · rw [htf]
    simp only [pureO, bindO]
    refine ⟨⟨(by intro w; simp), rfl, eff.m_eq, eff.lim_eq, ?_, ?_, (by intro hh; rcases hh with hh | hh <;> cases hh)⟩, by simp⟩
    · intro q hq
      cases hq
      exact Or.inl htf
    intro q hq
    cases hq
    refine ⟨hwf', eff.al_dvd, eff.m_dvd, eff.nz, ?_, [], AllRefused.nil, Or.inl ⟨by simp, ?_⟩⟩
    · rcases eff.shape with hs | hs
      · exact Or.inl hs
      · exact Or.inr (Or.inl hs)
    · rcases eff.shape with ⟨_, ha, _, _⟩ | ⟨c, cs, hc, hc', _, _⟩
      · rw [ha]
      · rw [hc, hc']; simp

end Bump

namespace Bump
open Gen

/-- `alloc_layout` panics exactly when `try_alloc_layout` returns `Err`; otherwise identical -/
theorem allocLayout_eq {E sz al} (s : St) :
    ((allocLayout E sz al s).2 = .panic ↔ ((tryAllocLayout E sz al s).2 = .err ∨ (tryAllocLayout E sz al s).2 = .panic)) ∧
    (allocLayout E sz al s).1 = (tryAllocLayout E sz al s).1 ∧
    (∀ p, (allocLayout E sz al s).2 = .ok p ↔ (tryAllocLayout E sz al s).2 = .ok p) ∧
    (allocLayout E sz al s).2 ≠ .err ∧
    (∀ w, (allocLayout E sz al s).2 = .bad w ↔ (tryAllocLayout E sz al s).2 = .bad w) ∧
    ((allocLayout E sz al s).2 = .envBad ↔ (tryAllocLayout E sz al s).2 = .envBad) := by
  unfold allocLayout
  rcases hr : tryAllocLayout E sz al s with ⟨s', o⟩
  cases o <;> simp

theorem allocLayout_spec {E sz al} (s : St) (hE : EnvOK E) (h : ArenaWF E s.a) (hA : IsPow2 al)
    (hlay : sz + al ≤ 2 ^ 63) :
    AllocPost E s (allocLayout E sz al s).1 sz al (allocLayout E sz al s).2 := by
  obtain ⟨sp, hnp⟩ := tryAllocLayout_spec s hE h hA hlay
  obtain ⟨e1, e2, e3, e4, e5, e6⟩ := allocLayout_eq (E := E) (sz := sz) (al := al) s
  rw [e2]
  refine ⟨?_, sp.mem_eq, sp.m_eq, sp.lim_eq, ?_, ?_, ?_⟩
  · intro w hw; exact sp.nobad w ((e5 w).mp hw)
  · intro p hp; exact sp.via p ((e3 p).mp hp)
  · intro p hp; exact sp.ok p ((e3 p).mp hp)
  · intro hh
    rcases hh with hh | hh
    · exact absurd hh e4
    · rcases e1.mp hh with h1 | h1
      · exact sp.fail (Or.inl h1)
      · exact absurd h1 hnp

theorem allocMaybe_spec {E sz al} (f : Bool) (s : St) (hE : EnvOK E) (h : ArenaWF E s.a) (hA : IsPow2 al)
    (hlay : sz + al ≤ 2 ^ 63) :
    AllocPost E s (allocMaybe E f sz al s).1 sz al (allocMaybe E f sz al s).2 := by
  unfold allocMaybe
  cases f
  · simp only [Bool.false_eq_true, ↓reduceIte]; exact allocLayout_spec s hE h hA hlay
  · simp only [↓reduceIte]; exact (tryAllocLayout_spec s hE h hA hlay).1

/-- fallible entry points never panic (C09) -/
theorem allocMaybe_fallible_nopanic {E sz al} (s : St) (hE : EnvOK E) (h : ArenaWF E s.a) (hA : IsPow2 al)
    (hlay : sz + al ≤ 2 ^ 63) : (allocMaybe E true sz al s).2 ≠ .panic := by
  unfold allocMaybe; simp only [↓reduceIte]; exact (tryAllocLayout_spec s hE h hA hlay).2

end Bump
