import BumpVerif.Proofs.StrRange
import BumpVerif.Proofs.StrRetain
/-!
# Programs over the `String` API: validity is an invariant of every run

`SOp` lists the methods of the property; `stepOp` is what one call does to the string under
`catch_unwind` (a call that panics on its index/range assertion leaves the string unchanged;
closures that panic are the business of C16: `Proofs/StrPanic.lean`).  Text arguments are `List Char`
(a `&str` argument is valid UTF-8 by its type).
-/
namespace Bump.Str

inductive SOp where
  | push (c : Char)
  | pushStr (t : List Char)
  | pop
  | insert (i : Nat) (c : Char)
  | insertStr (i : Nat) (t : List Char)
  | remove (i : Nat)
  | truncate (n : Nat)
  | clear
  | retain (ans : Nat → Bool)
  | drain (sb eb : Bd) (take back : Nat) (forget : Bool)
  | replaceRange (sb eb : Bd) (t : List Char)
  | splitOff (at_ : Nat) (keepOther : Bool)
  | extendChars (cs : List Char)
  | extendStrs (ts : List (List Char))
  | clone
  | fromStr (t : List Char)
  | fromIter (cs : List Char)

/-- state after one call; `none` = the model reported `bad` (must never happen) -/
def stepOp (ovf : Bool) (s : Bytes) : SOp → Option Bytes
  | .push c => some (push s c)
  | .pushStr t => some (pushStr s (encode t))
  | .pop => match pop s with | .ok (s', _) => some s' | .panic => some s | _ => none
  | .insert i c => match insert s i c with | .ok s' => some s' | .panic => some s | _ => none
  | .insertStr i t => match insertStr s i (encode t) with | .ok s' => some s' | .panic => some s | _ => none
  | .remove i => match remove s i with | .ok (s', _) => some s' | .panic => some s | _ => none
  | .truncate n => match truncate s n with | .ok s' => some s' | .panic => some s | _ => none
  | .clear => some (clear s)
  | .retain ans => match retain s ans none with | .ok r => some r.bytes | _ => none
  | .drain sb eb take back forget =>
    match drain ovf s sb eb take back forget with | .ok r => some r.bytes | .panic => some s | _ => none
  | .replaceRange sb eb t =>
    match replaceRange ovf s sb eb (encode t) with | .ok s' => some s' | .panic => some s | _ => none
  | .splitOff at_ keepOther =>
    match splitOff s at_ with | .ok (s', o) => some (if keepOther then o else s') | .panic => some s | _ => none
  | .extendChars cs => some (extendChars s cs)
  | .extendStrs ts => some (extendStrs s (ts.map encode))
  | .clone => some (clone s)
  | .fromStr t => some (encode t)
  | .fromIter cs => some (fromIter cs)

def runOps (ovf : Bool) : Bytes → List SOp → Option Bytes
  | s, [] => some s
  | s, op :: ops => match stepOp ovf s op with | some s' => runOps ovf s' ops | none => none

theorem pop_valid {s : Bytes} (hv : Valid s) :
    ∃ s' r, pop s = .ok (s', r) ∧ Valid s' ∧ chars s' = (chars s).dropLast ∧ r = (chars s).getLast? := by
  obtain ⟨l, rfl⟩ := hv
  rcases List.eq_nil_or_concat l with rfl | ⟨l', c, rfl⟩
  · exact ⟨[], none, by simp [pop], Valid_nil, by simp [chars, decodeAll, decodeFuel], by simp [chars, decodeAll, decodeFuel]⟩
  · refine ⟨encode l', some c, ?_, Valid_encode _, ?_, ?_⟩
    · rw [List.concat_eq_append]; exact pop_snoc l' c
    · simp [List.concat_eq_append]
    · simp [List.concat_eq_append]

theorem remove_valid {s : Bytes} (hv : Valid s) (i : Nat) :
    remove s i = .panic ∨ ∃ s' c, remove s i = .ok (s', c) ∧ Valid s' := by
  by_cases hb : isCharBoundary s i = true
  · obtain ⟨l₁, l₂, hl, ht, hd, rfl⟩ := boundary_split hv hb
    have hs : s = encode (l₁ ++ l₂) := by rw [hv.eq_encode_chars, hl]
    subst hs
    cases l₂ with
    | nil => left; simpa using remove_end l₁
    | cons c l₂ => right; exact ⟨_, _, remove_split l₁ l₂ c, Valid_encode _⟩
  · left; exact remove_nonboundary s i (by simpa using hb)

theorem drainCore_valid {s : Bytes} (hv : Valid s) (a b take back : Nat) (forget : Bool) :
    drainCore s a b take back forget = .panic ∨
      ∃ r, drainCore s a b take back forget = .ok r ∧ Valid r.bytes := by
  by_cases h : sliceOk s a b = true
  · obtain ⟨l₁, l₂, l₃, rfl, rfl, rfl⟩ := sliceOk_exists hv h
    right
    refine ⟨_, drainCore_split l₁ l₂ l₃ take back forget, ?_⟩
    cases forget <;> exact Valid_encode _
  · left; exact (drainCore_panic_iff s a b take back forget hv).mpr (by simpa using h)

theorem drain_valid (ovf : Bool) {s : Bytes} (hv : Valid s) (sb eb : Bd) (take back : Nat) (forget : Bool) :
    drain ovf s sb eb take back forget = .panic ∨
      ∃ r, drain ovf s sb eb take back forget = .ok r ∧ Valid r.bytes := by
  unfold drain drainWith
  have hS : ∀ b o, rangeStart o b = .panic ∨ ∃ n, rangeStart o b = .ok n := by
    intro b o; cases b <;> simp [rangeStart, addOne] <;> (repeat' split) <;> simp
  have hE : ∀ b o len, rangeEnd o len b = .panic ∨ ∃ n, rangeEnd o len b = .ok n := by
    intro b o len; cases b <;> simp [rangeEnd, addOne] <;> (repeat' split) <;> simp
  rcases hS sb (drainOvf ovf) with h1 | ⟨a, h1⟩
  · simp [h1]
  · rcases hE eb (drainOvf ovf) s.length with h2 | ⟨b, h2⟩
    · simp [h1, h2]
    · simp only [h1, h2]; exact drainCore_valid hv a b take back forget

theorem addOne_agree {o₁ o₂ : Bool} {n m₁ m₂ : Nat} (h1 : addOne o₁ n = .ok m₁) (h2 : addOne o₂ n = .ok m₂) :
    m₁ = m₂ := by
  unfold addOne at h1 h2
  by_cases h : n + 1 < USIZE
  · simp [h] at h1 h2; omega
  · cases o₁ <;> cases o₂ <;> simp [h] at h1 h2; omega

theorem startAssert_boundary {o₁ o₂ : Bool} {s : Bytes} {sb : Bd} {a : Nat}
    (h1 : startAssert o₁ s sb = .ok ()) (h2 : rangeStart o₂ sb = .ok a) : isCharBoundary s a = true := by
  cases sb with
  | incl n =>
    simp only [rangeStart, Outcome.ok.injEq] at h2; subst h2
    simp only [startAssert] at h1; split at h1 <;> simp_all
  | excl n =>
    simp only [rangeStart] at h2
    simp only [startAssert] at h1
    split at h1
    · rename_i m hm
      have := addOne_agree hm h2; subst this
      split at h1 <;> simp_all
    · simp at h1
  | unbounded =>
    simp only [rangeStart, Outcome.ok.injEq] at h2; subst h2; exact isCharBoundary_zero s

theorem endAssert_boundary {o₁ o₂ : Bool} {s : Bytes} {eb : Bd} {b : Nat}
    (h1 : endAssert o₁ s eb = .ok ()) (h2 : rangeEnd o₂ s.length eb = .ok b) : isCharBoundary s b = true := by
  cases eb with
  | excl n =>
    simp only [rangeEnd, Outcome.ok.injEq] at h2; subst h2
    simp only [endAssert] at h1; split at h1 <;> simp_all
  | incl n =>
    simp only [rangeEnd] at h2
    simp only [endAssert] at h1
    split at h1
    · rename_i m hm
      have := addOne_agree hm h2; subst this
      split at h1 <;> simp_all
    · simp at h1
  | unbounded =>
    simp only [rangeEnd, Outcome.ok.injEq] at h2; subst h2; exact isCharBoundary_length s

theorem replaceRange_valid (ovf : Bool) {s : Bytes} (hv : Valid s) (sb eb : Bd) (t : List Char) :
    replaceRange ovf s sb eb (encode t) = .panic ∨
      ∃ s', replaceRange ovf s sb eb (encode t) = .ok s' ∧ Valid s' := by
  unfold replaceRange replaceRangeWith
  cases h1 : startAssert (replaceOvf ovf) s sb with
  | ok u =>
    cases h2 : endAssert (replaceOvf ovf) s eb with
    | ok u' =>
      simp only []
      unfold spliceBytes
      cases h3 : rangeStart (vecDrainOvf ovf) sb with
      | ok a =>
        cases h4 : rangeEnd (vecDrainOvf ovf) s.length eb with
        | ok b =>
          simp only []
          by_cases hab : a ≤ b ∧ b ≤ s.length
          · right
            simp only [hab, and_self, if_true]
            have ha := startAssert_boundary h1 h3
            have hb := endAssert_boundary h2 h4
            have hs : sliceOk s a b = true := by simp [sliceOk, ha, hb, hab.1]
            obtain ⟨l₁, l₂, l₃, rfl, rfl, rfl⟩ := sliceOk_exists hv hs
            refine ⟨_, rfl, ?_⟩
            have ht : (encode (l₁ ++ l₂ ++ l₃)).take (encode l₁).length = encode l₁ := by
              rw [encode3, List.append_assoc]; exact List.take_left' rfl
            have hd : (encode (l₁ ++ l₂ ++ l₃)).drop ((encode l₁).length + (encode l₂).length) = encode l₃ := by
              rw [encode3]; exact List.drop_left' (by simp)
            rw [ht, hd, ← encode_append, ← encode_append]; exact Valid_encode _
          · left; simp [hab]
        | _ => left; rfl
      | _ => left; rfl
    | _ => left; rfl
  | _ => left; rfl

/-- **One call keeps the string valid UTF-8, never reaches a `bad` state, for every method,
every argument (any byte index, any range bound incl. `usize::MAX`, either overflow mode).** -/
theorem stepOp_valid (ovf : Bool) {s : Bytes} (hv : Valid s) (op : SOp) :
    ∃ s', stepOp ovf s op = some s' ∧ Valid s' := by
  cases op with
  | push c => exact ⟨_, rfl, Valid_append hv (Valid_encChar c)⟩
  | pushStr t => exact ⟨_, rfl, Valid_append hv (Valid_encode t)⟩
  | pop =>
    obtain ⟨s', r, h, hv', -, -⟩ := pop_valid hv
    exact ⟨s', by simp [stepOp, h], hv'⟩
  | insert i c =>
    by_cases hb : isCharBoundary s i = true
    · obtain ⟨l₁, l₂, hl, -, -, rfl⟩ := boundary_split hv hb
      have hs : s = encode (l₁ ++ l₂) := by rw [hv.eq_encode_chars, hl]
      subst hs
      exact ⟨_, by simp only [stepOp, insert_split]; rfl, Valid_encode _⟩
    · have := (insert_panic_iff s i c).mpr (by simpa using hb)
      exact ⟨s, by simp [stepOp, this], hv⟩
  | insertStr i t =>
    by_cases hb : isCharBoundary s i = true
    · obtain ⟨l₁, l₂, hl, -, -, rfl⟩ := boundary_split hv hb
      have hs : s = encode (l₁ ++ l₂) := by rw [hv.eq_encode_chars, hl]
      subst hs
      refine ⟨_, by simp only [stepOp, insertStr_split]; rfl, ?_⟩
      rw [← encode_append, ← encode_append]; exact Valid_encode _
    · have := (insertStr_panic_iff s i (encode t)).mpr (by simpa using hb)
      exact ⟨s, by simp [stepOp, this], hv⟩
  | remove i =>
    rcases remove_valid hv i with h | ⟨s', c, h, hv'⟩
    · exact ⟨s, by simp [stepOp, h], hv⟩
    · exact ⟨s', by simp [stepOp, h], hv'⟩
  | truncate n =>
    by_cases hn : n ≤ s.length
    · by_cases hb : isCharBoundary s n = true
      · obtain ⟨l₁, l₂, hl, -, -, rfl⟩ := boundary_split hv hb
        have hs : s = encode (l₁ ++ l₂) := by rw [hv.eq_encode_chars, hl]
        subst hs
        exact ⟨_, by simp only [stepOp, truncate_split]; rfl, Valid_encode _⟩
      · have := (truncate_panic_iff s n).mpr ⟨hn, by simpa using hb⟩
        exact ⟨s, by simp [stepOp, this], hv⟩
    · exact ⟨s, by simp [stepOp, truncate_beyond s n (by omega)], hv⟩
  | clear => exact ⟨[], rfl, Valid_nil⟩
  | retain ans =>
    obtain ⟨l, rfl⟩ := hv
    exact ⟨_, by simp only [stepOp, retain_spec]; rfl, Valid_encode _⟩
  | drain sb eb take back forget =>
    rcases drain_valid ovf hv sb eb take back forget with h | ⟨r, h, hv'⟩
    · exact ⟨s, by simp [stepOp, h], hv⟩
    · exact ⟨r.bytes, by simp [stepOp, h], hv'⟩
  | replaceRange sb eb t =>
    rcases replaceRange_valid ovf hv sb eb t with h | ⟨s', h, hv'⟩
    · exact ⟨s, by simp [stepOp, h], hv⟩
    · exact ⟨s', by simp [stepOp, h], hv'⟩
  | splitOff at_ keepOther =>
    by_cases hb : isCharBoundary s at_ = true
    · obtain ⟨l₁, l₂, hl, -, -, rfl⟩ := boundary_split hv hb
      have hs : s = encode (l₁ ++ l₂) := by rw [hv.eq_encode_chars, hl]
      subst hs
      refine ⟨_, by simp only [stepOp, splitOff_split]; rfl, ?_⟩
      cases keepOther <;> exact Valid_encode _
    · have := (splitOff_panic_iff s at_).mpr (by simpa using hb)
      exact ⟨s, by simp [stepOp, this], hv⟩
  | extendChars cs =>
    obtain ⟨l, rfl⟩ := hv
    exact ⟨_, rfl, by rw [extendChars_encode]; exact Valid_encode _⟩
  | extendStrs ts =>
    obtain ⟨l, rfl⟩ := hv
    exact ⟨_, rfl, by rw [extendStrs_encode]; exact Valid_encode _⟩
  | clone => exact ⟨s, rfl, hv⟩
  | fromStr t => exact ⟨_, rfl, Valid_encode t⟩
  | fromIter cs => exact ⟨_, rfl, by rw [fromIter_encode]; exact Valid_encode _⟩

/-- **Validity is an invariant of every program** (induction over the operation list). -/
theorem runOps_valid (ovf : Bool) (ops : List SOp) : ∀ {s : Bytes}, Valid s →
    ∃ s', runOps ovf s ops = some s' ∧ Valid s' := by
  induction ops with
  | nil => intro s hv; exact ⟨s, rfl, hv⟩
  | cons op ops ih =>
    intro s hv
    obtain ⟨s₁, h₁, hv₁⟩ := stepOp_valid ovf hv op
    obtain ⟨s₂, h₂, hv₂⟩ := ih hv₁
    exact ⟨s₂, by simp [runOps, h₁, h₂], hv₂⟩

end Bump.Str
