import BumpVerif.Proofs.Box
/-!
# Box family: the ownership invariant `Own` over whole programs

`Own w`: no id occurs twice among the ids reachable through a slot, the drop log and the
moved-out log, and these are exactly the ids ever created.  It holds initially, every
operation preserves it (because every operation's effect is conservative, `effOf_wf`), hence it
holds after every program.  Splitting the reachable ids by who is responsible for them gives the
five pairwise disjoint classes owned / escaped / leaked / dropped / moved-out.
-/
namespace Bump.Bx

def W.all (w : W) : List Nat := w.live ++ w.drops ++ w.moved

structure Own (w : W) : Prop where
  nodup : w.all.Nodup
  conserv : w.created.Perm w.all
  fresh : ∀ id ∈ w.created, id < w.nextId

theorem count_live_set (slots : List Slot) (s : Nat) (old new : Slot) (h : slots[s]? = some old) (a : Nat) :
    ((slots.set s new).flatMap Slot.ids).count a + old.ids.count a
      = (slots.flatMap Slot.ids).count a + new.ids.count a := by
  induction slots generalizing s with
  | nil => simp at h
  | cons x xs ih =>
    cases s with
    | zero =>
      simp at h; subst h
      simp [List.flatMap_cons, List.count_append]; omega
    | succ s =>
      simp at h
      have := ih s h
      simp [List.flatMap_cons, List.count_append] at this ⊢; omega

theorem own_init (ns : Nat) : Own (W.init ns) := by
  have hl : (W.init ns).live = [] := by
    simp [W.live, W.init, Slot.ids, Slot.cells]
  have ha : (W.init ns).all = [] := by
    simp only [W.all, hl]; simp [W.init]
  constructor
  · rw [ha]; exact List.nodup_nil
  · rw [ha]; simp [W.init]
  · simp [W.init]

theorem applyEff_own (env : Env) (e : Eff) (w : W) (ho : Own w) (hw : e.WF w) : Own (applyEff env e w) := by
  cases e with
  | nop a => exact ⟨ho.nodup, ho.conserv, ho.fresh⟩
  | upd s new nfresh fx alloc =>
    obtain ⟨old, hs, hp⟩ := hw
    have hcnt : ∀ a, (applyEff env (.upd s new nfresh fx alloc) w).all.count a
        = w.all.count a + (List.range' w.nextId nfresh).count a := by
      intro a
      have h1 := count_live_set w.slots s old new hs a
      have h2 := (List.perm_iff_count.mp hp) a
      simp only [W.all, W.live, applyEff, List.count_append] at h1 h2 ⊢
      omega
    have hfreshcnt : ∀ a, w.nextId ≤ a → w.all.count a = 0 := by
      intro a ha
      rw [← (List.perm_iff_count.mp ho.conserv) a]
      apply List.count_eq_zero.mpr
      intro hm; have := ho.fresh a hm; omega
    refine ⟨?_, ?_, ?_⟩
    · rw [List.nodup_iff_count]; intro a
      rw [hcnt a]
      have h1 := (List.nodup_iff_count.mp ho.nodup) a
      have h2 := (List.nodup_iff_count.mp (List.nodup_range' (s := w.nextId) (n := nfresh))) a
      by_cases ha : w.nextId ≤ a
      · rw [hfreshcnt a ha]; omega
      · have : (List.range' w.nextId nfresh).count a = 0 := by
          apply List.count_eq_zero.mpr; simp; omega
        omega
    · rw [List.perm_iff_count]; intro a
      rw [hcnt a]
      have := (List.perm_iff_count.mp ho.conserv) a
      simp only [applyEff, List.count_append]; omega
    · intro id hid
      simp only [applyEff, List.mem_append, List.mem_range'_1] at hid ⊢
      rcases hid with h | h
      · have := ho.fresh id h; omega
      · omega

theorem step_own (z : Bool) (env : Env) (op : Op) (w : W) (h : Own w) : Own (step z env op w) :=
  applyEff_own env _ w h (effOf_wf z op w)

theorem run_own (z : Bool) (prog : List (Env × Op)) (w : W) (h : Own w) : Own (run z prog w) := by
  induction prog generalizing w with
  | nil => exact h
  | cons eo rest ih => exact ih _ (step_own z eo.1 eo.2 w h)

/-- reachable ids, split by responsibility -/
theorem live_partition (w : W) : w.live.Perm (w.owned ++ w.escaped ++ w.leaked) := by
  rw [List.perm_iff_count]; intro a
  simp only [W.live, W.owned, W.escaped, W.leaked, W.idsOf, List.count_append]
  induction w.slots with
  | nil => simp
  | cons x xs ih =>
    have hn : x.cat = .none → x.ids = [] := by
      cases x <;> simp [Slot.cat, Slot.ids, Slot.cells]
    cases hc : x.cat <;> simp [hc, List.flatMap_cons, List.count_append, ih] <;> first | omega | (simp [hn hc])

/-- the five classes are pairwise disjoint, duplicate-free, and together are what was created -/
theorem own_classes (w : W) (h : Own w) :
    (w.owned ++ w.escaped ++ w.leaked ++ w.drops ++ w.moved).Nodup ∧
    w.created.Perm (w.owned ++ w.escaped ++ w.leaked ++ w.drops ++ w.moved) := by
  have hp : w.all.Perm (w.owned ++ w.escaped ++ w.leaked ++ w.drops ++ w.moved) := by
    unfold W.all
    exact ((live_partition w).append_right w.drops).append_right w.moved
  exact ⟨hp.nodup_iff.mp h.nodup, h.conserv.trans hp⟩

end Bump.Bx
