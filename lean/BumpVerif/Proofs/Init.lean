import BumpVerif.Proofs.Realloc
/-! Fallible initialisers: `alloc_try_with` / `try_alloc_try_with` / `alloc_slice_try_fill_*`. -/
namespace Bump
open Gen

/-- what a successful fast-path call did, by unfolding only -/
theorem tryFast_inv {E a sz al a' p} (h : tryFast E a sz al = .ok (some (a', p))) : setCurPtr E a p = some a' := by
  unfold tryFast at h
  simp only at h
  split at h
  · cases h
  · split at h
    · cases h
    · split at h
      · cases h
      · rename_i q hq
        split at h
        · cases h
        · split at h
          · cases h
          · rename_i a'' hs
            simp only [Outcome.ok.injEq, Option.some.injEq, Prod.mk.injEq] at h
            obtain ⟨rfl, rfl⟩ := h
            exact hs

theorem setCurPtr_cur {E a p a'} (h : setCurPtr E a p = some a') :
    (a'.cur E).ptr = p ∧ footerId a' = footerId a ∧ a'.M = a.M ∧ a'.limit = a.limit := by
  unfold setCurPtr at h
  cases hc : a.chunks with
  | nil =>
    rw [hc] at h
    simp only at h
    split at h
    · rename_i hp
      cases h
      simp [Arena.cur, hc, emptyChunk, hp]
    · cases h
  | cons c cs =>
    rw [hc] at h
    simp only [Option.some.injEq] at h
    subst h
    simp [Arena.cur, footerId, hc, Chunk.footer]

theorem setCurPtr_undo {E a p a'} (h : setCurPtr E a p = some a') : setCurPtr E a' (a.cur E).ptr = some a := by
  unfold setCurPtr at h ⊢
  cases a with
  | mk M chunks limit =>
  cases chunks with
  | nil =>
    simp only at h
    split at h
    · cases h; simp [Arena.cur, emptyChunk]
    · cases h
  | cons c cs =>
    simp only [Option.some.injEq] at h
    subst h
    simp [Arena.cur]

/-- the rewind after a failed initialiser that allocated nothing, same-chunk case: the arena is
exactly what it was on entry -/
theorem rewind_restore {E a p a'} (s1 : St) (hs : setCurPtr E a p = some a') (h1 : s1.a = a') :
    rewind E (footerId a) (a.cur E).ptr p s1 = ({ s1 with a := a }, .ok ()) := by
  obtain ⟨c1, c2, _, _⟩ := setCurPtr_cur hs
  unfold rewind
  subst h1
  have hl : isLast E s1.a p = true := by simp [isLast, c1]
  simp only [hl, ↓reduceIte, c2, beq_self_eq_true, storePtr, setCurPtr_undo hs]

end Bump

namespace Bump
open Gen

theorem footer_ne_of_disj {M c d} (hc : ChunkWF M c) (hd : ChunkWF M d) (h : Disj c.data c.size d.data d.size) :
    c.footer ≠ d.footer := by
  have f1 := footer_lt hc; have f2 := footer_lt hd
  have := hc.ptr_ge; have := hc.ptr_le; have := hd.ptr_ge; have := hd.ptr_le
  have := FS
  unfold Disj at h
  omega

/-- fresh-chunk case: the rewind puts the finger of the new chunk back at its footer -/
theorem rewind_restore_fresh {E a a' c p} (rp : Nat) (s1 : St) (hwf' : ArenaWF E a') (hpf : c.ptr = c.footer)
    (hch : a'.chunks = { c with ptr := p } :: a.chunks) (h1 : s1.a = a') :
    rewind E (footerId a) rp p s1 = ({ s1 with a := { a' with chunks := c :: a.chunks } }, .ok ()) := by
  subst h1
  unfold rewind
  have hcur : s1.a.cur E = { c with ptr := p } := by simp [Arena.cur, hch]
  have hl : isLast E s1.a p = true := by simp [isLast, hcur]
  have hfid : footerId s1.a = some c.footer := by simp [footerId, hch, Chunk.footer]
  have hne : (footerId s1.a == footerId a) = false := by
    rw [hfid]
    cases hac : a.chunks with
    | nil => simp [footerId, hac]
    | cons h hs =>
      simp only [footerId, hac, List.head?_cons, Option.map_some, beq_eq_false_iff_ne, ne_eq, Option.some.injEq]
      have hw1 := hwf'.chunks { c with ptr := p } (by rw [hch]; exact List.mem_cons_self)
      have hw2 := hwf'.chunks h (by rw [hch, hac]; exact List.mem_cons_of_mem _ List.mem_cons_self)
      have hd := hwf'.disj; rw [hch, hac] at hd
      have hdj := (List.pairwise_cons.mp hd).1 h List.mem_cons_self
      have hne' := footer_ne_of_disj hw1 hw2 hdj
      exact hne'
  simp only [hl, ↓reduceIte, hne, Bool.false_eq_true, storePtr, setCurPtr, hch, hcur]
  have : ({ c with ptr := p } : Chunk).footer = c.footer := rfl
  rw [this]
  have hc : ({ ({ c with ptr := p } : Chunk) with ptr := c.footer } : Chunk) = c := by
    cases c with
    | mk d sz al pt ab =>
      simp only [Chunk.mk.injEq, true_and, and_true]
      exact hpf.symm
  rw [hc]

/-- **No residue** (C11): a failed `alloc_try_with`/`try_alloc_try_with` whose initialiser
allocated nothing hands back `Err`, leaves a well-formed arena that is either exactly the arena
on entry or the arena on entry plus the (empty) chunk acquired for the value, produces no
allocator traffic beyond the reservation itself, and a request of the same layout made next is
served by the fast path — at the very same address — without obtaining memory. -/
theorem atw_err_no_residue {E sz al} (f : Bool) (s : St) (hE : EnvOK E) (h : ArenaWF E s.a) (hA : IsPow2 al)
    (hlay : sz + al ≤ 2 ^ 63) (slot : Nat) (hok : (allocMaybe E f sz al s).2 = .ok slot) :
    let r := allocTryWith E sz al false [] f s
    r.2 = .ierr [] ∧ ArenaWF E r.1.a ∧ r.1.evs = (allocMaybe E f sz al s).1.evs ∧ r.1.mem = s.mem ∧
    (r.1.a = s.a ∨ ∃ c, c.ptr = c.footer ∧ r.1.a = { s.a with chunks := c :: s.a.chunks }) ∧
    tryFast E r.1.a sz al = .ok (some ((allocMaybe E f sz al s).1.a, slot)) := by
  intro r
  have sp := allocMaybe_spec f s hE h hA hlay
  obtain ⟨hwf', _, _, _, _, _⟩ := sp.ok slot hok
  have hvia := sp.via slot hok
  have hr : r = allocTryWith E sz al false [] f s := rfl
  unfold allocTryWith at hr
  cases hm : allocMaybe E f sz al s with
  | mk s1 o1 =>
    rw [hm] at hok hvia hwf' hr
    have hmem := sp.mem_eq; rw [hm] at hmem
    have hmq := sp.m_eq; rw [hm] at hmq
    have hlq := sp.lim_eq; rw [hm] at hlq
    simp only at hok hvia hwf' hmem hmq hlq
    subst hok
    simp only [bindO, runInner, Bool.false_eq_true, ↓reduceIte] at hr
    rcases hvia with htf | ⟨c, hpf, hch, htf⟩
    · have hs := tryFast_inv htf
      rw [rewind_restore s1 hs rfl] at hr
      simp only [Res.ofOutcome, id] at hr
      rw [hr]
      exact ⟨rfl, h, rfl, hmem, Or.inl rfl, htf⟩
    · rw [rewind_restore_fresh (E := E) (a := s.a) (c := c) (p := slot) (s.a.cur E).ptr s1 hwf' hpf hch rfl] at hr
      simp only [Res.ofOutcome, id] at hr
      rw [hr]
      simp only
      have heq : ({ s1.a with chunks := c :: s.a.chunks } : Arena) = { s.a with chunks := c :: s.a.chunks } := by
        cases hs1 : s1.a; cases hsa : s.a
        rw [hs1, hsa] at hmq hlq
        simp only at hmq hlq
        subst hmq; subst hlq; rfl
      rw [heq]
      refine ⟨(by triv), ?_, (by triv), hmem, Or.inr ⟨c, hpf, (by triv)⟩, htf⟩
      -- well-formed: same chunk list as s1.a except the head's finger, which sits at the footer
      have hw := hwf'.chunks { c with ptr := slot } (by rw [hch]; exact List.mem_cons_self)
      have hfa : 16 ∣ ({ c with ptr := slot } : Chunk).footer := footer_al hw
      have hdv : s1.a.M ∣ c.footer := Nat.dvd_trans hwf'.m_dvd16 hfa
      have hge : c.data ≤ c.footer := Nat.le_trans hw.ptr_ge hw.ptr_le
      have := setPtr_wf hwf' hch (p := c.footer) hge (Nat.le_refl _) hdv
      have hc : ({ ({ c with ptr := slot } : Chunk) with ptr := c.footer } : Chunk) = c := by
        cases c with
        | mk d sz al pt ab =>
          simp only [Chunk.mk.injEq, true_and, and_true]
          exact hpf.symm
      rw [hc, heq] at this
      exact this

end Bump
