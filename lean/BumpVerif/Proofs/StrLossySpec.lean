import BumpVerif.Proofs.StrLossy
/-!
# `lossy_spec`: the lossy decoder equals the "U+FFFD per maximal subpart" reference decoder

The reference is defined from well-formedness alone (Unicode Table 3-7 through `encChar` /
`decodeHead`; the width table does not occur): well-formed sequences are copied; where none
starts, the *maximal subpart* of the ill-formed subsequence (Unicode 3.9: the longest initial
subsequence of some well-formed sequence, or one byte) is replaced by U+FFFD.
-/
set_option linter.unusedSimpArgs false
namespace Bump.Str

/-- `p` is an initial subsequence of a well-formed code unit sequence -/
def PrefixOfWellFormed (p : Bytes) : Prop := ∃ c : Char, p <+: encChar c

/-- `t.take k` is the maximal subpart of the ill-formed subsequence at the head of `t` -/
def IsMaximalSubpart (t : Bytes) (k : Nat) : Prop :=
  1 ≤ k ∧ k ≤ t.length ∧ (k = 1 ∨ PrefixOfWellFormed (t.take k)) ∧
    ∀ k', k < k' → k' ≤ t.length → ¬ PrefixOfWellFormed (t.take k')

/-- the reference decoder, as a relation input ↦ output -/
inductive RefLossy : Bytes → Bytes → Prop where
  | nil : RefLossy [] []
  | scalar (c : Char) (t out : Bytes) : RefLossy t out → RefLossy (encChar c ++ t) (encChar c ++ out)
  | broken (t out : Bytes) (k : Nat) : t ≠ [] → decodeHead t = none → IsMaximalSubpart t k →
      RefLossy (t.drop k) out → RefLossy t (REPLACEMENT ++ out)

/-! ## inversion of `decodeHead` by lead class -/

theorem decodeHead_inv_lead {b0 : UInt8} {t : Bytes} {c : Char} {n : Nat}
    (h : decodeHead (b0 :: t) = some (c, n)) : b0.toNat < 0x80 ∨ (0xC2 ≤ b0.toNat ∧ b0.toNat < 0xF5) := by
  by_cases c1 : b0.toNat < 0x80
  · exact Or.inl c1
  · by_cases c2 : b0.toNat < 0xC2
    · simp [decodeHead, c1, c2] at h
    · by_cases c5 : b0.toNat < 0xF5
      · exact Or.inr ⟨by omega, c5⟩
      · have c3 : ¬ b0.toNat < 0xE0 := by omega
        have c4 : ¬ b0.toNat < 0xF0 := by omega
        simp [decodeHead, c1, c2, c3, c4, c5] at h

theorem decodeHead_inv2 {b0 : UInt8} {t : Bytes} {c : Char} {n : Nat} (h0 : 0xC2 ≤ b0.toNat) (h1 : b0.toNat < 0xE0)
    (h : decodeHead (b0 :: t) = some (c, n)) : ∃ b1 t', t = b1 :: t' ∧ isCont b1 = true ∧ n = 2 := by
  have c1 : ¬ b0.toNat < 0x80 := by omega
  have c2 : ¬ b0.toNat < 0xC2 := by omega
  match t, h with
  | [], h => simp [decodeHead, c1, c2, h1] at h
  | b1 :: t', h =>
    by_cases k1 : isCont b1 = true
    · rw [decodeHead_2 _ _ _ h0 h1 k1] at h
      simp only [Option.some.injEq, Prod.mk.injEq] at h
      exact ⟨b1, t', rfl, k1, h.2.symm⟩
    · simp [decodeHead, c1, c2, h1, k1] at h

theorem decodeHead_inv3 {b0 : UInt8} {t : Bytes} {c : Char} {n : Nat} (h0 : 0xE0 ≤ b0.toNat) (h1 : b0.toNat < 0xF0)
    (h : decodeHead (b0 :: t) = some (c, n)) :
    ∃ b1 b2 t', t = b1 :: b2 :: t' ∧ inRange (secondLo b0.toNat) (secondHi b0.toNat) b1 = true ∧ isCont b2 = true ∧ n = 3 := by
  have c1 : ¬ b0.toNat < 0x80 := by omega
  have c2 : ¬ b0.toNat < 0xC2 := by omega
  have c3 : ¬ b0.toNat < 0xE0 := by omega
  match t, h with
  | [], h => simp [decodeHead, c1, c2, c3, h1] at h
  | [_], h => simp [decodeHead, c1, c2, c3, h1] at h
  | b1 :: b2 :: t', h =>
    by_cases k1 : inRange (secondLo b0.toNat) (secondHi b0.toNat) b1 = true
    · by_cases k2 : isCont b2 = true
      · rw [decodeHead_3 _ _ _ _ h0 h1 k1 k2] at h
        simp only [Option.some.injEq, Prod.mk.injEq] at h
        exact ⟨b1, b2, t', rfl, k1, k2, h.2.symm⟩
      · simp [decodeHead, c1, c2, c3, h1, k2] at h
    · simp [decodeHead, c1, c2, c3, h1, k1] at h

theorem decodeHead_inv4 {b0 : UInt8} {t : Bytes} {c : Char} {n : Nat} (h0 : 0xF0 ≤ b0.toNat) (h1 : b0.toNat < 0xF5)
    (h : decodeHead (b0 :: t) = some (c, n)) :
    ∃ b1 b2 b3 t', t = b1 :: b2 :: b3 :: t' ∧ inRange (secondLo b0.toNat) (secondHi b0.toNat) b1 = true
      ∧ isCont b2 = true ∧ isCont b3 = true ∧ n = 4 := by
  have c1 : ¬ b0.toNat < 0x80 := by omega
  have c2 : ¬ b0.toNat < 0xC2 := by omega
  have c3 : ¬ b0.toNat < 0xE0 := by omega
  have c4 : ¬ b0.toNat < 0xF0 := by omega
  match t, h with
  | [], h => simp [decodeHead, c1, c2, c3, c4, h1] at h
  | [_], h => simp [decodeHead, c1, c2, c3, c4, h1] at h
  | [_, _], h => simp [decodeHead, c1, c2, c3, c4, h1] at h
  | b1 :: b2 :: b3 :: t', h =>
    by_cases k1 : inRange (secondLo b0.toNat) (secondHi b0.toNat) b1 = true
    · by_cases k2 : isCont b2 = true
      · by_cases k3 : isCont b3 = true
        · rw [decodeHead_4 _ _ _ _ _ h0 h1 k1 k2 k3] at h
          simp only [Option.some.injEq, Prod.mk.injEq] at h
          exact ⟨b1, b2, b3, t', rfl, k1, k2, k3, h.2.symm⟩
        · simp [decodeHead, c1, c2, c3, c4, h1, k3] at h
      · simp [decodeHead, c1, c2, c3, c4, h1, k2] at h
    · simp [decodeHead, c1, c2, c3, c4, h1, k1] at h

/-- a well-formed sequence that starts with `p` -/
theorem prefix_wf_decode {p : Bytes} (h : PrefixOfWellFormed p) :
    ∃ c q, decodeHead (p ++ q) = some (c, (p ++ q).length) ∧ encChar c = p ++ q := by
  obtain ⟨c, q, hq⟩ := h
  refine ⟨c, q, ?_, hq.symm⟩
  have := decodeHead_enc c []
  rw [List.append_nil] at this
  rw [hq]; exact this

end Bump.Str

namespace Bump.Str

/-! ## what cannot / can be continued to a well-formed sequence -/

theorem not_prefix_bad_lead (b0 : UInt8) (rest : Bytes) (h0 : 0x80 ≤ b0.toNat)
    (h : b0.toNat < 0xC2 ∨ 0xF5 ≤ b0.toNat) : ¬ PrefixOfWellFormed (b0 :: rest) := by
  intro hp
  obtain ⟨c, q, hd, -⟩ := prefix_wf_decode hp
  have := decodeHead_inv_lead (by simpa using hd)
  omega

theorem not_prefix_2 (b0 b1 : UInt8) (rest : Bytes) (h0 : 0xC2 ≤ b0.toNat) (h1 : b0.toNat < 0xE0)
    (h : isCont b1 = false) : ¬ PrefixOfWellFormed (b0 :: b1 :: rest) := by
  intro hp
  obtain ⟨c, q, hd, -⟩ := prefix_wf_decode hp
  obtain ⟨b1', t', ht, hc, -⟩ := decodeHead_inv2 h0 h1 (by simpa using hd)
  simp only [List.cons_append, List.cons.injEq] at ht
  rw [← ht.1, h] at hc; cases hc

theorem not_prefix_3a (b0 b1 : UInt8) (rest : Bytes) (h0 : 0xE0 ≤ b0.toNat) (h1 : b0.toNat < 0xF0)
    (h : inRange (secondLo b0.toNat) (secondHi b0.toNat) b1 = false) : ¬ PrefixOfWellFormed (b0 :: b1 :: rest) := by
  intro hp
  obtain ⟨c, q, hd, -⟩ := prefix_wf_decode hp
  obtain ⟨b1', b2', t', ht, hc, -⟩ := decodeHead_inv3 h0 h1 (by simpa using hd)
  simp only [List.cons_append, List.cons.injEq] at ht
  rw [← ht.1, h] at hc; cases hc

theorem not_prefix_3b (b0 b1 b2 : UInt8) (rest : Bytes) (h0 : 0xE0 ≤ b0.toNat) (h1 : b0.toNat < 0xF0)
    (h : isCont b2 = false) : ¬ PrefixOfWellFormed (b0 :: b1 :: b2 :: rest) := by
  intro hp
  obtain ⟨c, q, hd, -⟩ := prefix_wf_decode hp
  obtain ⟨b1', b2', t', ht, -, hc, -⟩ := decodeHead_inv3 h0 h1 (by simpa using hd)
  simp only [List.cons_append, List.cons.injEq] at ht
  rw [← ht.2.1, h] at hc; cases hc

theorem not_prefix_4a (b0 b1 : UInt8) (rest : Bytes) (h0 : 0xF0 ≤ b0.toNat) (h1 : b0.toNat < 0xF5)
    (h : inRange (secondLo b0.toNat) (secondHi b0.toNat) b1 = false) : ¬ PrefixOfWellFormed (b0 :: b1 :: rest) := by
  intro hp
  obtain ⟨c, q, hd, -⟩ := prefix_wf_decode hp
  obtain ⟨b1', b2', b3', t', ht, hc, -⟩ := decodeHead_inv4 h0 h1 (by simpa using hd)
  simp only [List.cons_append, List.cons.injEq] at ht
  rw [← ht.1, h] at hc; cases hc

theorem not_prefix_4b (b0 b1 b2 : UInt8) (rest : Bytes) (h0 : 0xF0 ≤ b0.toNat) (h1 : b0.toNat < 0xF5)
    (h : isCont b2 = false) : ¬ PrefixOfWellFormed (b0 :: b1 :: b2 :: rest) := by
  intro hp
  obtain ⟨c, q, hd, -⟩ := prefix_wf_decode hp
  obtain ⟨b1', b2', b3', t', ht, -, hc, -⟩ := decodeHead_inv4 h0 h1 (by simpa using hd)
  simp only [List.cons_append, List.cons.injEq] at ht
  rw [← ht.2.1, h] at hc; cases hc

theorem not_prefix_4c (b0 b1 b2 b3 : UInt8) (rest : Bytes) (h0 : 0xF0 ≤ b0.toNat) (h1 : b0.toNat < 0xF5)
    (h : isCont b3 = false) : ¬ PrefixOfWellFormed (b0 :: b1 :: b2 :: b3 :: rest) := by
  intro hp
  obtain ⟨c, q, hd, -⟩ := prefix_wf_decode hp
  obtain ⟨b1', b2', b3', t', ht, -, -, hc, -⟩ := decodeHead_inv4 h0 h1 (by simpa using hd)
  simp only [List.cons_append, List.cons.injEq] at ht
  rw [← ht.2.2.1, h] at hc; cases hc

theorem isCont_80 : isCont 0x80 = true := by decide

theorem prefix_3 (b0 b1 : UInt8) (h0 : 0xE0 ≤ b0.toNat) (h1 : b0.toNat < 0xF0)
    (k1 : inRange (secondLo b0.toNat) (secondHi b0.toNat) b1 = true) : PrefixOfWellFormed [b0, b1] :=
  ⟨_, [0x80], (enc_bytes_3 b0 b1 0x80 h0 h1 k1 isCont_80).symm⟩

theorem prefix_4_2 (b0 b1 : UInt8) (h0 : 0xF0 ≤ b0.toNat) (h1 : b0.toNat < 0xF5)
    (k1 : inRange (secondLo b0.toNat) (secondHi b0.toNat) b1 = true) : PrefixOfWellFormed [b0, b1] :=
  ⟨_, [0x80, 0x80], (enc_bytes_4 b0 b1 0x80 0x80 h0 h1 k1 isCont_80 isCont_80).symm⟩

theorem prefix_4_3 (b0 b1 b2 : UInt8) (h0 : 0xF0 ≤ b0.toNat) (h1 : b0.toNat < 0xF5)
    (k1 : inRange (secondLo b0.toNat) (secondHi b0.toNat) b1 = true) (k2 : isCont b2 = true) :
    PrefixOfWellFormed [b0, b1, b2] :=
  ⟨_, [0x80], (enc_bytes_4 b0 b1 b2 0x80 h0 h1 k1 k2 isCont_80).symm⟩

theorem take_two_cons (b0 b1 : UInt8) (t : Bytes) {k : Nat} (hk : 2 ≤ k) :
    (b0 :: b1 :: t).take k = b0 :: b1 :: t.take (k - 2) := by
  match k, hk with
  | k + 2, _ => simp
theorem take_three_cons (b0 b1 b2 : UInt8) (t : Bytes) {k : Nat} (hk : 3 ≤ k) :
    (b0 :: b1 :: b2 :: t).take k = b0 :: b1 :: b2 :: t.take (k - 3) := by
  match k, hk with
  | k + 3, _ => simp
theorem take_four_cons (b0 b1 b2 b3 : UInt8) (t : Bytes) {k : Nat} (hk : 4 ≤ k) :
    (b0 :: b1 :: b2 :: b3 :: t).take k = b0 :: b1 :: b2 :: b3 :: t.take (k - 4) := by
  match k, hk with
  | k + 4, _ => simp
theorem take_one_cons (b0 : UInt8) (t : Bytes) {k : Nat} (hk : 1 ≤ k) :
    (b0 :: t).take k = b0 :: t.take (k - 1) := by
  match k, hk with
  | k + 1, _ => simp

theorem maximal_one_of_all {t : Bytes} (ht : t ≠ []) (h : ∀ k', 1 < k' → k' ≤ t.length → ¬ PrefixOfWellFormed (t.take k')) :
    IsMaximalSubpart t 1 :=
  ⟨Nat.le_refl _, List.length_pos_iff.mpr ht, Or.inl rfl, h⟩

/-- **an `error!()` of the loop body cuts off exactly the maximal subpart** -/
theorem sufStep_err_maximal (t : Bytes) (k : Nat) (ht : t ≠ []) (h : sufStep t = .err k) : IsMaximalSubpart t k := by
  match t, ht with
  | b0 :: t', _ =>
    by_cases c1 : b0.toNat < 0x80
    · simp [sufStep, c1] at h
    · have c1' : ¬ b0.toNat < 128 := c1
      by_cases c2 : b0.toNat < 0xC2
      · rw [sufStep_invalid_lead b0 t' (by omega) (Or.inl c2)] at h
        cases h
        apply maximal_one_of_all (by simp)
        intro k' hk' _
        rw [take_one_cons _ _ (by omega)]
        exact not_prefix_bad_lead b0 _ (by omega) (Or.inl c2)
      · by_cases c3 : b0.toNat < 0xE0
        · have hw := width_two b0 (by omega) c3
          match t', h with
          | [], h =>
            simp [sufStep, c1', hw, notContTag_eq, isCont_zero] at h; subst h
            exact maximal_one_of_all (by simp) (by intro k' h1 h2; simp at h2; omega)
          | b1 :: t'', h =>
            by_cases k1 : isCont b1 = true
            · simp [sufStep, c1', hw, notContTag_eq, k1] at h
            · have k1' : isCont b1 = false := by simpa using k1
              simp [sufStep, c1', hw, notContTag_eq, k1'] at h; subst h
              apply maximal_one_of_all (by simp)
              intro k' hk' _
              rw [take_two_cons _ _ _ (by omega)]
              exact not_prefix_2 b0 b1 _ (by omega) c3 k1'
        · by_cases c4 : b0.toNat < 0xF0
          · have hw := width_three b0 (by omega) c4
            have e3 := fun s => bad3_eq b0 s (Nat.le_of_not_lt c3) c4
            match t', h with
            | [], h =>
              simp [sufStep, c1', hw, bad3_zero] at h; subst h
              exact maximal_one_of_all (by simp) (by intro k' h1 h2; simp at h2; omega)
            | [b1], h =>
              by_cases k1 : inRange (secondLo b0.toNat) (secondHi b0.toNat) b1 = true
              · simp [sufStep, c1', hw, e3, k1, notContTag_eq, isCont_zero] at h; subst h
                refine ⟨by omega, by simp, Or.inr ?_, by intro k' h1 h2; simp at h2; omega⟩
                simpa using prefix_3 b0 b1 (by omega) c4 k1
              · have k1' : inRange (secondLo b0.toNat) (secondHi b0.toNat) b1 = false := by simpa using k1
                simp [sufStep, c1', hw, e3, k1'] at h; subst h
                apply maximal_one_of_all (by simp)
                intro k' hk' _
                rw [take_two_cons _ _ _ (by omega)]
                exact not_prefix_3a b0 b1 _ (by omega) c4 k1'
            | b1 :: b2 :: t'', h =>
              by_cases k1 : inRange (secondLo b0.toNat) (secondHi b0.toNat) b1 = true
              · by_cases k2 : isCont b2 = true
                · simp [sufStep, c1', hw, e3, k1, k2, notContTag_eq] at h
                · have k2' : isCont b2 = false := by simpa using k2
                  simp [sufStep, c1', hw, e3, k1, k2', notContTag_eq] at h; subst h
                  refine ⟨by omega, by simp, Or.inr ?_, ?_⟩
                  · simpa using prefix_3 b0 b1 (by omega) c4 k1
                  · intro k' hk' _
                    rw [take_three_cons _ _ _ _ (by omega)]
                    exact not_prefix_3b b0 b1 b2 _ (by omega) c4 k2'
              · have k1' : inRange (secondLo b0.toNat) (secondHi b0.toNat) b1 = false := by simpa using k1
                simp [sufStep, c1', hw, e3, k1'] at h; subst h
                apply maximal_one_of_all (by simp)
                intro k' hk' _
                rw [take_two_cons _ _ _ (by omega)]
                exact not_prefix_3a b0 b1 _ (by omega) c4 k1'
          · by_cases c5 : b0.toNat < 0xF5
            · have hw := width_four b0 (by omega) c5
              have e4 := fun s => bad4_eq b0 s (Nat.le_of_not_lt c4) c5
              match t', h with
              | [], h =>
                simp [sufStep, c1', hw, bad4_zero] at h; subst h
                exact maximal_one_of_all (by simp) (by intro k' h1 h2; simp at h2; omega)
              | [b1], h =>
                by_cases k1 : inRange (secondLo b0.toNat) (secondHi b0.toNat) b1 = true
                · simp [sufStep, c1', hw, e4, k1, notContTag_eq, isCont_zero] at h; subst h
                  refine ⟨by omega, by simp, Or.inr ?_, by intro k' h1 h2; simp at h2; omega⟩
                  simpa using prefix_4_2 b0 b1 (by omega) c5 k1
                · have k1' : inRange (secondLo b0.toNat) (secondHi b0.toNat) b1 = false := by simpa using k1
                  simp [sufStep, c1', hw, e4, k1'] at h; subst h
                  apply maximal_one_of_all (by simp)
                  intro k' hk' _
                  rw [take_two_cons _ _ _ (by omega)]
                  exact not_prefix_4a b0 b1 _ (by omega) c5 k1'
              | [b1, b2], h =>
                by_cases k1 : inRange (secondLo b0.toNat) (secondHi b0.toNat) b1 = true
                · by_cases k2 : isCont b2 = true
                  · simp [sufStep, c1', hw, e4, k1, k2, notContTag_eq, isCont_zero] at h; subst h
                    refine ⟨by omega, by simp, Or.inr ?_, by intro k' h1 h2; simp at h2; omega⟩
                    simpa using prefix_4_3 b0 b1 b2 (by omega) c5 k1 k2
                  · have k2' : isCont b2 = false := by simpa using k2
                    simp [sufStep, c1', hw, e4, k1, k2', notContTag_eq] at h; subst h
                    refine ⟨by omega, by simp, Or.inr ?_, ?_⟩
                    · simpa using prefix_4_2 b0 b1 (by omega) c5 k1
                    · intro k' hk' _
                      rw [take_three_cons _ _ _ _ (by omega)]
                      exact not_prefix_4b b0 b1 b2 _ (by omega) c5 k2'
                · have k1' : inRange (secondLo b0.toNat) (secondHi b0.toNat) b1 = false := by simpa using k1
                  simp [sufStep, c1', hw, e4, k1'] at h; subst h
                  apply maximal_one_of_all (by simp)
                  intro k' hk' _
                  rw [take_two_cons _ _ _ (by omega)]
                  exact not_prefix_4a b0 b1 _ (by omega) c5 k1'
              | b1 :: b2 :: b3 :: t'', h =>
                by_cases k1 : inRange (secondLo b0.toNat) (secondHi b0.toNat) b1 = true
                · by_cases k2 : isCont b2 = true
                  · by_cases k3 : isCont b3 = true
                    · simp [sufStep, c1', hw, e4, k1, k2, k3, notContTag_eq] at h
                    · have k3' : isCont b3 = false := by simpa using k3
                      simp [sufStep, c1', hw, e4, k1, k2, k3', notContTag_eq] at h; subst h
                      refine ⟨by omega, by simp, Or.inr ?_, ?_⟩
                      · simpa using prefix_4_3 b0 b1 b2 (by omega) c5 k1 k2
                      · intro k' hk' _
                        rw [take_four_cons _ _ _ _ _ (by omega)]
                        exact not_prefix_4c b0 b1 b2 b3 _ (by omega) c5 k3'
                  · have k2' : isCont b2 = false := by simpa using k2
                    simp [sufStep, c1', hw, e4, k1, k2', notContTag_eq] at h; subst h
                    refine ⟨by omega, by simp, Or.inr ?_, ?_⟩
                    · simpa using prefix_4_2 b0 b1 (by omega) c5 k1
                    · intro k' hk' _
                      rw [take_three_cons _ _ _ _ (by omega)]
                      exact not_prefix_4b b0 b1 b2 _ (by omega) c5 k2'
                · have k1' : inRange (secondLo b0.toNat) (secondHi b0.toNat) b1 = false := by simpa using k1
                  simp [sufStep, c1', hw, e4, k1'] at h; subst h
                  apply maximal_one_of_all (by simp)
                  intro k' hk' _
                  rw [take_two_cons _ _ _ (by omega)]
                  exact not_prefix_4a b0 b1 _ (by omega) c5 k1'
            · rw [sufStep_invalid_lead b0 t' (by omega) (Or.inr (by omega))] at h
              cases h
              apply maximal_one_of_all (by simp)
              intro k' hk' _
              rw [take_one_cons _ _ (by omega)]
              exact not_prefix_bad_lead b0 _ (by omega) (Or.inr (by omega))

/-! ## the scan, the chunk loop and the reference decoder -/

theorem RefLossy_nil_inv {o : Bytes} (h : RefLossy [] o) : o = [] := by
  generalize hv : ([] : Bytes) = v at h
  cases h with
  | nil => rfl
  | scalar c t out _ =>
    have := congrArg List.length hv
    have := encChar_length_pos c
    simp only [List.length_nil, List.length_append] at *; omega
  | broken t out k hne => exact absurd hv.symm hne

theorem RefLossy_append_valid (l : List Char) {t out : Bytes} (h : RefLossy t out) :
    RefLossy (encode l ++ t) (encode l ++ out) := by
  induction l with
  | nil => simpa using h
  | cons c l ih =>
    rw [encode_cons, List.append_assoc, List.append_assoc]
    exact RefLossy.scalar c _ _ ih

theorem RefLossy_valid (l : List Char) : RefLossy (encode l) (encode l) := by
  have := RefLossy_append_valid l RefLossy.nil
  simpa using this

/-- shape of what the `while` loop returns when started at `i`: a run of well-formed scalars
`source[i..i_]`, then either the end of the input or an `error!()` whose broken part
`source[i_..j]` is the maximal subpart there -/
theorem lossyScan_shape (src : Bytes) : ∀ (fuel i : Nat), i ≤ src.length → src.length - i < fuel →
    ∃ ch, lossyScan src fuel i = some ch ∧
      ((∃ l, src.drop i = encode l ∧ ch = ⟨src, [], []⟩) ∨
       (∃ l i_ k, src.drop i = encode l ++ src.drop i_ ∧ i_ = i + (encode l).length ∧ i_ < src.length ∧
          sufStep (src.drop i_) = .err k ∧ ch = ⟨src.take i_, (src.drop i_).take k, src.drop (i_ + k)⟩)) := by
  intro fuel
  induction fuel with
  | zero => intro i _ h; omega
  | succ f ih =>
    intro i hi hf
    by_cases hlt : i < src.length
    · simp only [lossyScan, hlt, if_true, lossyStep_eq src i hlt]
      cases hs : sufStep (src.drop i) with
      | adv n =>
        obtain ⟨c, hc⟩ := (sufStep_decode (src.drop i)).1 n hs
        obtain ⟨hd, hn⟩ := decodeHead_some hc
        have hpos := encChar_length_pos c
        have hle : i + n ≤ src.length := by
          have := congrArg List.length hd
          simp only [List.length_drop, List.length_append] at this; omega
        simp only []
        obtain ⟨ch, hch, hshape⟩ := ih (i + n) hle (by omega)
        refine ⟨ch, hch, ?_⟩
        have hdd : (src.drop i).drop n = src.drop (i + n) := by rw [List.drop_drop]
        rcases hshape with ⟨l, hl, rfl⟩ | ⟨l, i_, k, hl, hi_, hlt_, hk, rfl⟩
        · left; exact ⟨c :: l, by rw [hd, hdd, hl, encode_cons], rfl⟩
        · right
          refine ⟨c :: l, i_, k, ?_, ?_, hlt_, hk, rfl⟩
          · rw [hd, hdd, hl, encode_cons, List.append_assoc]
          · rw [hi_, encode_cons, List.length_append, ← hn]; omega
      | err k =>
        simp only []
        refine ⟨_, rfl, Or.inr ⟨[], i, k, by simp, by simp, hlt, hs, ?_⟩⟩
        simp only [Nat.add_sub_cancel_left]
    · have hi' : i = src.length := by omega
      simp only [lossyScan, hlt, if_false]
      exact ⟨_, rfl, Or.inl ⟨[], by simp [hi'], rfl⟩⟩

/-- one chunk, read as the reference decoder reads it -/
theorem lossyNext_ref {src : Bytes} (hne : src ≠ []) :
    ∃ ch, lossyNext src = some ch ∧ ch.rest.length < src.length ∧
      ((ch.valid = src ∧ ch.broken = [] ∧ Valid src) ∨
       (ch.broken ≠ [] ∧ ch.valid.length < src.length ∧
          ∀ out, RefLossy ch.rest out → RefLossy src (ch.valid ++ REPLACEMENT ++ out))) := by
  obtain ⟨ch, hch, hshape⟩ := lossyScan_shape src (src.length + 1) 0 (Nat.zero_le _) (by omega)
  have hpos : 0 < src.length := List.length_pos_iff.mpr hne
  refine ⟨ch, by simp only [lossyNext, hne, if_false]; exact hch, ?_⟩
  rcases hshape with ⟨l, hl, rfl⟩ | ⟨l, i_, k, hl, hi_, hlt_, hk, rfl⟩
  · simp only [List.drop_zero] at hl
    exact ⟨by simpa using hpos, Or.inl ⟨rfl, rfl, ⟨l, hl⟩⟩⟩
  · simp only [List.drop_zero, Nat.zero_add] at hl hi_
    have hne_ : src.drop i_ ≠ [] := by
      intro h; have := congrArg List.length h; simp at this; omega
    have hk1 := sufStep_err_pos hne_ hk
    have hmax := sufStep_err_maximal _ k hne_ hk
    have hnone := (sufStep_decode _).2 k hk
    have htake : src.take i_ = encode l := by
      have := congrArg (List.take i_) hl
      rw [List.take_left' hi_.symm] at this; exact this
    refine ⟨by simp only [List.length_drop]; omega, Or.inr ⟨?_, by simp only [List.length_take]; omega, ?_⟩⟩
    · intro h; have := congrArg List.length h
      simp only [List.length_take, List.length_drop, List.length_nil] at this; omega
    · intro out hout
      rw [htake]
      conv => lhs; rw [hl]
      rw [List.append_assoc]
      apply RefLossy_append_valid
      apply RefLossy.broken _ _ k hne_ hnone hmax
      rw [List.drop_drop]; exact hout

theorem lossyRest_ref : ∀ (fuel : Nat) (src res : Bytes), src.length < fuel →
    ∃ o, lossyRest fuel src res = .ok (res ++ o) ∧ RefLossy src o := by
  intro fuel
  induction fuel with
  | zero => intro src res h; omega
  | succ f ih =>
    intro src res hf
    by_cases hne : src = []
    · subst hne; exact ⟨[], by simp [lossyRest, lossyNext], RefLossy.nil⟩
    · obtain ⟨ch, hch, hlt, hcase⟩ := lossyNext_ref hne
      simp only [lossyRest, hch]
      rcases hcase with ⟨hv, hb, ⟨l, hl⟩⟩ | ⟨hb, -, href⟩
      · obtain ⟨o, ho, hro⟩ := ih ch.rest (pushStr res ch.valid) (by omega)
        simp only [hb, ne_eq, not_true_eq_false, if_false]
        -- the chunk was the whole (valid) rest of the input: the iterator is exhausted next
        have hrest : ch.rest = [] := by
          obtain ⟨ch', hch', hshape⟩ := lossyScan_shape src (src.length + 1) 0 (Nat.zero_le _) (by omega)
          have hEq : ch = ch' := by
            have : lossyNext src = some ch' := by simp only [lossyNext, hne, if_false]; exact hch'
            rw [hch] at this; exact Option.some.inj this
          subst hEq
          rcases hshape with ⟨_, _, rfl⟩ | ⟨l', i_, k, _, _, hlt_, _, rfl⟩
          · rfl
          · simp only at hv
            have := congrArg List.length hv
            simp only [List.length_take] at this; omega
        rw [hrest] at ho hro
        refine ⟨ch.valid ++ o, ?_, ?_⟩
        · rw [hrest, ho]; simp [pushStr, List.append_assoc]
        · rw [RefLossy_nil_inv hro, hv, hl]; simpa using RefLossy_valid l
      · obtain ⟨o, ho, hro⟩ := ih ch.rest (pushStr (pushStr res ch.valid) REPLACEMENT) (by omega)
        simp only [hb, ne_eq, not_false_eq_true, if_true]
        refine ⟨ch.valid ++ REPLACEMENT ++ o, ?_, href o hro⟩
        rw [ho]; simp [pushStr, List.append_assoc]

/-- **`lossy_spec`**: `from_utf8_lossy_in` computes the reference decoding ("U+FFFD per maximal
subpart", defined from Table 3-7 without the width table). -/
theorem fromUtf8Lossy_spec (dbg : Bool) (v : Bytes) : ∃ out, fromUtf8Lossy dbg v = .ok out ∧ RefLossy v out := by
  by_cases hne : v = []
  · subst hne; exact ⟨[], by simp [fromUtf8Lossy, lossyNext], RefLossy.nil⟩
  · obtain ⟨ch, hch, hlt, hcase⟩ := lossyNext_ref hne
    simp only [fromUtf8Lossy, hch]
    rcases hcase with ⟨hv, hb, ⟨l, hl⟩⟩ | ⟨hb, hvl, href⟩
    · have hlen : ch.valid.length = v.length := by rw [hv]
      simp only [hlen, if_true, hb]
      refine ⟨v, by simp, ?_⟩
      rw [hl]; exact RefLossy_valid l
    · have hlen : ¬ ch.valid.length = v.length := by omega
      simp only [hlen, if_false, hb, ne_eq, not_false_eq_true, if_true]
      obtain ⟨o, ho, hro⟩ := lossyRest_ref (v.length + 1) ch.rest (pushStr (pushStr [] ch.valid) REPLACEMENT) (by omega)
      refine ⟨_, ho, ?_⟩
      have := href o hro
      simpa [pushStr, List.append_assoc] using this

/-! ## the reference decoder is a function -/

theorem maximal_unique {t : Bytes} {k₁ k₂ : Nat} (h₁ : IsMaximalSubpart t k₁) (h₂ : IsMaximalSubpart t k₂) : k₁ = k₂ := by
  obtain ⟨a1, a2, a3, a4⟩ := h₁
  obtain ⟨b1, b2, b3, b4⟩ := h₂
  rcases Nat.lt_trichotomy k₁ k₂ with h | h | h
  · rcases b3 with rfl | hp
    · omega
    · exact absurd hp (a4 k₂ h b2)
  · exact h
  · rcases a3 with rfl | hp
    · omega
    · exact absurd hp (b4 k₁ h a2)

theorem RefLossy_functional : ∀ {v o₁ o₂ : Bytes}, RefLossy v o₁ → RefLossy v o₂ → o₁ = o₂ := by
  intro v o₁ o₂ h₁
  induction h₁ generalizing o₂ with
  | nil => intro h₂; exact (RefLossy_nil_inv h₂).symm
  | scalar c t out _ ih =>
    intro h₂
    generalize hv : encChar c ++ t = v at h₂
    cases h₂ with
    | nil =>
      have := congrArg List.length hv
      have := encChar_length_pos c
      simp only [List.length_nil, List.length_append] at *; omega
    | scalar c' t' out' h' =>
      have hd := decodeHead_enc c t
      rw [hv, decodeHead_enc c' t'] at hd
      simp only [Option.some.injEq, Prod.mk.injEq] at hd
      obtain ⟨rfl, -⟩ := hd
      have : t = t' := List.append_cancel_left hv
      subst this
      rw [ih h']
    | broken _ out' k hne hnone =>
      rw [← hv, decodeHead_enc] at hnone; cases hnone
  | broken t out k hne hnone hmax _ ih =>
    intro h₂
    generalize hv : t = v at h₂
    cases h₂ with
    | nil => exact absurd hv hne
    | scalar c t' out' h' => rw [hv, decodeHead_enc] at hnone; cases hnone
    | broken _ out' k' _ _ hmax' h' =>
      subst hv
      have := maximal_unique hmax hmax'
      subst this
      rw [ih h']

/-- `lossy_spec` as an equation: the output is *the* reference decoding -/
theorem fromUtf8Lossy_eq_ref (dbg : Bool) (v out : Bytes) (h : RefLossy v out) : fromUtf8Lossy dbg v = .ok out := by
  obtain ⟨o, ho, hr⟩ := fromUtf8Lossy_spec dbg v
  rw [ho, RefLossy_functional hr h]

end Bump.Str
