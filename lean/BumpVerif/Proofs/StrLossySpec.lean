import BumpVerif.Proofs.StrLossy
/-!
# `lossy_spec`: the lossy decoder equals the "U+FFFD per maximal subpart" reference decoder

The reference is defined from well-formedness alone (Unicode Table 3-7 through `encChar` /
`decodeHead`; the width table does not occur): well-formed sequences are copied; where none
starts, the *maximal subpart* of the ill-formed subsequence (Unicode 3.9: the longest initial
subsequence of some well-formed sequence, or one byte) is replaced by U+FFFD.
-/
set_option linter.unusedSimpArgs false
namespace Bump.Str

/-- `p` is an initial subsequence of a well-formed code unit sequence -/
def PrefixOfWellFormed (p : Bytes) : Prop := ∃ c : Char, p <+: encChar c

/-- `t.take k` is the maximal subpart of the ill-formed subsequence at the head of `t` -/
def IsMaximalSubpart (t : Bytes) (k : Nat) : Prop :=
  1 ≤ k ∧ k ≤ t.length ∧ (k = 1 ∨ PrefixOfWellFormed (t.take k)) ∧
    ∀ k', k < k' → k' ≤ t.length → ¬ PrefixOfWellFormed (t.take k')

/-- the reference decoder, as a relation input ↦ output -/
inductive RefLossy : Bytes → Bytes → Prop where
  | nil : RefLossy [] []
  | scalar (c : Char) (t out : Bytes) : RefLossy t out → RefLossy (encChar c ++ t) (encChar c ++ out)
  | broken (t out : Bytes) (k : Nat) : t ≠ [] → decodeHead t = none → IsMaximalSubpart t k →
      RefLossy (t.drop k) out → RefLossy t (REPLACEMENT ++ out)

/-! ## inversion of `decodeHead` by lead class -/

theorem decodeHead_inv_lead {b0 : UInt8} {t : Bytes} {c : Char} {n : Nat}
    (h : decodeHead (b0 :: t) = some (c, n)) : b0.toNat < 0x80 ∨ (0xC2 ≤ b0.toNat ∧ b0.toNat < 0xF5) := by
  by_cases c1 : b0.toNat < 0x80
  · exact Or.inl c1
  · by_cases c2 : b0.toNat < 0xC2
    · simp [decodeHead, c1, c2] at h
    · by_cases c5 : b0.toNat < 0xF5
      · exact Or.inr ⟨by omega, c5⟩
      · have c3 : ¬ b0.toNat < 0xE0 := by omega
        have c4 : ¬ b0.toNat < 0xF0 := by omega
        simp [decodeHead, c1, c2, c3, c4, c5] at h

theorem decodeHead_inv2 {b0 : UInt8} {t : Bytes} {c : Char} {n : Nat} (h0 : 0xC2 ≤ b0.toNat) (h1 : b0.toNat < 0xE0)
    (h : decodeHead (b0 :: t) = some (c, n)) : ∃ b1 t', t = b1 :: t' ∧ isCont b1 = true ∧ n = 2 := by
  have c1 : ¬ b0.toNat < 0x80 := by omega
  have c2 : ¬ b0.toNat < 0xC2 := by omega
  match t, h with
  | [], h => simp [decodeHead, c1, c2, h1] at h
  | b1 :: t', h =>
    by_cases k1 : isCont b1 = true
    · rw [decodeHead_2 _ _ _ h0 h1 k1] at h
      simp only [Option.some.injEq, Prod.mk.injEq] at h
      exact ⟨b1, t', rfl, k1, h.2.symm⟩
    · simp [decodeHead, c1, c2, h1, k1] at h

theorem decodeHead_inv3 {b0 : UInt8} {t : Bytes} {c : Char} {n : Nat} (h0 : 0xE0 ≤ b0.toNat) (h1 : b0.toNat < 0xF0)
    (h : decodeHead (b0 :: t) = some (c, n)) :
    ∃ b1 b2 t', t = b1 :: b2 :: t' ∧ inRange (secondLo b0.toNat) (secondHi b0.toNat) b1 = true ∧ isCont b2 = true ∧ n = 3 := by
  have c1 : ¬ b0.toNat < 0x80 := by omega
  have c2 : ¬ b0.toNat < 0xC2 := by omega
  have c3 : ¬ b0.toNat < 0xE0 := by omega
  match t, h with
  | [], h => simp [decodeHead, c1, c2, c3, h1] at h
  | [_], h => simp [decodeHead, c1, c2, c3, h1] at h
  | b1 :: b2 :: t', h =>
    by_cases k1 : inRange (secondLo b0.toNat) (secondHi b0.toNat) b1 = true
    · by_cases k2 : isCont b2 = true
      · rw [decodeHead_3 _ _ _ _ h0 h1 k1 k2] at h
        simp only [Option.some.injEq, Prod.mk.injEq] at h
        exact ⟨b1, b2, t', rfl, k1, k2, h.2.symm⟩
      · simp [decodeHead, c1, c2, c3, h1, k2] at h
    · simp [decodeHead, c1, c2, c3, h1, k1] at h

theorem decodeHead_inv4 {b0 : UInt8} {t : Bytes} {c : Char} {n : Nat} (h0 : 0xF0 ≤ b0.toNat) (h1 : b0.toNat < 0xF5)
    (h : decodeHead (b0 :: t) = some (c, n)) :
    ∃ b1 b2 b3 t', t = b1 :: b2 :: b3 :: t' ∧ inRange (secondLo b0.toNat) (secondHi b0.toNat) b1 = true
      ∧ isCont b2 = true ∧ isCont b3 = true ∧ n = 4 := by
  have c1 : ¬ b0.toNat < 0x80 := by omega
  have c2 : ¬ b0.toNat < 0xC2 := by omega
  have c3 : ¬ b0.toNat < 0xE0 := by omega
  have c4 : ¬ b0.toNat < 0xF0 := by omega
  match t, h with
  | [], h => simp [decodeHead, c1, c2, c3, c4, h1] at h
  | [_], h => simp [decodeHead, c1, c2, c3, c4, h1] at h
  | [_, _], h => simp [decodeHead, c1, c2, c3, c4, h1] at h
  | b1 :: b2 :: b3 :: t', h =>
    by_cases k1 : inRange (secondLo b0.toNat) (secondHi b0.toNat) b1 = true
    · by_cases k2 : isCont b2 = true
      · by_cases k3 : isCont b3 = true
        · rw [decodeHead_4 _ _ _ _ _ h0 h1 k1 k2 k3] at h
          simp only [Option.some.injEq, Prod.mk.injEq] at h
          exact ⟨b1, b2, b3, t', rfl, k1, k2, k3, h.2.symm⟩
        · simp [decodeHead, c1, c2, c3, c4, h1, k3] at h
      · simp [decodeHead, c1, c2, c3, c4, h1, k2] at h
    · simp [decodeHead, c1, c2, c3, c4, h1, k1] at h

/-- a well-formed sequence that starts with `p` -/
theorem prefix_wf_decode {p : Bytes} (h : PrefixOfWellFormed p) :
    ∃ c q, decodeHead (p ++ q) = some (c, (p ++ q).length) ∧ encChar c = p ++ q := by
  obtain ⟨c, q, hq⟩ := h
  refine ⟨c, q, ?_, hq.symm⟩
  have := decodeHead_enc c []
  rw [List.append_nil] at this
  rw [hq]; exact this

end Bump.Str

namespace Bump.Str

/-! ## what cannot / can be continued to a well-formed sequence -/

theorem not_prefix_bad_lead (b0 : UInt8) (rest : Bytes) (h0 : 0x80 ≤ b0.toNat)
    (h : b0.toNat < 0xC2 ∨ 0xF5 ≤ b0.toNat) : ¬ PrefixOfWellFormed (b0 :: rest) := by
  intro hp
  obtain ⟨c, q, hd, -⟩ := prefix_wf_decode hp
  have := decodeHead_inv_lead (by simpa using hd)
  omega

theorem not_prefix_2 (b0 b1 : UInt8) (rest : Bytes) (h0 : 0xC2 ≤ b0.toNat) (h1 : b0.toNat < 0xE0)
    (h : isCont b1 = false) : ¬ PrefixOfWellFormed (b0 :: b1 :: rest) := by
  intro hp
  obtain ⟨c, q, hd, -⟩ := prefix_wf_decode hp
  obtain ⟨b1', t', ht, hc, -⟩ := decodeHead_inv2 h0 h1 (by simpa using hd)
  simp only [List.cons_append, List.cons.injEq] at ht
  rw [← ht.1, h] at hc; cases hc

theorem not_prefix_3a (b0 b1 : UInt8) (rest : Bytes) (h0 : 0xE0 ≤ b0.toNat) (h1 : b0.toNat < 0xF0)
    (h : inRange (secondLo b0.toNat) (secondHi b0.toNat) b1 = false) : ¬ PrefixOfWellFormed (b0 :: b1 :: rest) := by
  intro hp
  obtain ⟨c, q, hd, -⟩ := prefix_wf_decode hp
  obtain ⟨b1', b2', t', ht, hc, -⟩ := decodeHead_inv3 h0 h1 (by simpa using hd)
  simp only [List.cons_append, List.cons.injEq] at ht
  rw [← ht.1, h] at hc; cases hc

theorem not_prefix_3b (b0 b1 b2 : UInt8) (rest : Bytes) (h0 : 0xE0 ≤ b0.toNat) (h1 : b0.toNat < 0xF0)
    (h : isCont b2 = false) : ¬ PrefixOfWellFormed (b0 :: b1 :: b2 :: rest) := by
  intro hp
  obtain ⟨c, q, hd, -⟩ := prefix_wf_decode hp
  obtain ⟨b1', b2', t', ht, -, hc, -⟩ := decodeHead_inv3 h0 h1 (by simpa using hd)
  simp only [List.cons_append, List.cons.injEq] at ht
  rw [← ht.2.1, h] at hc; cases hc

theorem not_prefix_4a (b0 b1 : UInt8) (rest : Bytes) (h0 : 0xF0 ≤ b0.toNat) (h1 : b0.toNat < 0xF5)
    (h : inRange (secondLo b0.toNat) (secondHi b0.toNat) b1 = false) : ¬ PrefixOfWellFormed (b0 :: b1 :: rest) := by
  intro hp
  obtain ⟨c, q, hd, -⟩ := prefix_wf_decode hp
  obtain ⟨b1', b2', b3', t', ht, hc, -⟩ := decodeHead_inv4 h0 h1 (by simpa using hd)
  simp only [List.cons_append, List.cons.injEq] at ht
  rw [← ht.1, h] at hc; cases hc

theorem not_prefix_4b (b0 b1 b2 : UInt8) (rest : Bytes) (h0 : 0xF0 ≤ b0.toNat) (h1 : b0.toNat < 0xF5)
    (h : isCont b2 = false) : ¬ PrefixOfWellFormed (b0 :: b1 :: b2 :: rest) := by
  intro hp
  obtain ⟨c, q, hd, -⟩ := prefix_wf_decode hp
  obtain ⟨b1', b2', b3', t', ht, -, hc, -⟩ := decodeHead_inv4 h0 h1 (by simpa using hd)
  simp only [List.cons_append, List.cons.injEq] at ht
  rw [← ht.2.1, h] at hc; cases hc

theorem not_prefix_4c (b0 b1 b2 b3 : UInt8) (rest : Bytes) (h0 : 0xF0 ≤ b0.toNat) (h1 : b0.toNat < 0xF5)
    (h : isCont b3 = false) : ¬ PrefixOfWellFormed (b0 :: b1 :: b2 :: b3 :: rest) := by
  intro hp
  obtain ⟨c, q, hd, -⟩ := prefix_wf_decode hp
  obtain ⟨b1', b2', b3', t', ht, -, -, hc, -⟩ := decodeHead_inv4 h0 h1 (by simpa using hd)
  simp only [List.cons_append, List.cons.injEq] at ht
  rw [← ht.2.2.1, h] at hc; cases hc

theorem isCont_80 : isCont 0x80 = true := by decide

theorem prefix_3 (b0 b1 : UInt8) (h0 : 0xE0 ≤ b0.toNat) (h1 : b0.toNat < 0xF0)
    (k1 : inRange (secondLo b0.toNat) (secondHi b0.toNat) b1 = true) : PrefixOfWellFormed [b0, b1] :=
  ⟨_, [0x80], (enc_bytes_3 b0 b1 0x80 h0 h1 k1 isCont_80).symm⟩

theorem prefix_4_2 (b0 b1 : UInt8) (h0 : 0xF0 ≤ b0.toNat) (h1 : b0.toNat < 0xF5)
    (k1 : inRange (secondLo b0.toNat) (secondHi b0.toNat) b1 = true) : PrefixOfWellFormed [b0, b1] :=
  ⟨_, [0x80, 0x80], (enc_bytes_4 b0 b1 0x80 0x80 h0 h1 k1 isCont_80 isCont_80).symm⟩

theorem prefix_4_3 (b0 b1 b2 : UInt8) (h0 : 0xF0 ≤ b0.toNat) (h1 : b0.toNat < 0xF5)
    (k1 : inRange (secondLo b0.toNat) (secondHi b0.toNat) b1 = true) (k2 : isCont b2 = true) :
    PrefixOfWellFormed [b0, b1, b2] :=
  ⟨_, [0x80], (enc_bytes_4 b0 b1 b2 0x80 h0 h1 k1 k2 isCont_80).symm⟩

theorem take_two_cons (b0 b1 : UInt8) (t : Bytes) {k : Nat} (hk : 2 ≤ k) :
    (b0 :: b1 :: t).take k = b0 :: b1 :: t.take (k - 2) := by
  match k, hk with
  | k + 2, _ => simp
theorem take_three_cons (b0 b1 b2 : UInt8) (t : Bytes) {k : Nat} (hk : 3 ≤ k) :
    (b0 :: b1 :: b2 :: t).take k = b0 :: b1 :: b2 :: t.take (k - 3) := by
  match k, hk with
  | k + 3, _ => simp
theorem take_four_cons (b0 b1 b2 b3 : UInt8) (t : Bytes) {k : Nat} (hk : 4 ≤ k) :
    (b0 :: b1 :: b2 :: b3 :: t).take k = b0 :: b1 :: b2 :: b3 :: t.take (k - 4) := by
  match k, hk with
  | k + 4, _ => simp
theorem take_one_cons (b0 : UInt8) (t : Bytes) {k : Nat} (hk : 1 ≤ k) :
    (b0 :: t).take k = b0 :: t.take (k - 1) := by
  match k, hk with
  | k + 1, _ => simp

end Bump.Str
