import BumpVerif.Proofs.StrValid
/-!
# The `String` methods of the model refine `List Char` functions and preserve validity
-/
namespace Bump.Str

/-! ## byte surgery -/

theorem copyWithin_remove (A C B : Bytes) :
    (copyWithin (A ++ C ++ B) (A.length + C.length) A.length ((A ++ C ++ B).length - (A.length + C.length))).take
      ((A ++ C ++ B).length - ((A.length + C.length) - A.length)) = A ++ B := by
  have e1 : (A ++ C ++ B).length - (A.length + C.length) = B.length := by simp; omega
  have e2 : (A ++ C ++ B).length - ((A.length + C.length) - A.length) = (A ++ B).length := by simp; omega
  rw [e1, e2]
  unfold copyWithin
  have t1 : (A ++ C ++ B).take A.length = A := by rw [List.append_assoc]; exact List.take_left' rfl
  have t2 : (A ++ C ++ B).drop (A.length + C.length) = B := List.drop_left' (by simp)
  rw [t1, t2, List.take_length, List.append_assoc]
  rw [← List.append_assoc]
  exact List.take_left' rfl

theorem insertBytes_eq (A B bytes : Bytes) : insertBytes (A ++ B) A.length bytes = A ++ bytes ++ B := by
  unfold insertBytes copyWithin
  simp only []
  have hlen : (A ++ B).length - A.length = B.length := by simp
  rw [hlen]
  generalize hR : List.replicate bytes.length (0 : UInt8) = R
  have hRl : R.length = bytes.length := by rw [← hR]; simp
  have d1 : (A ++ B ++ R).drop A.length = B ++ R := by rw [List.append_assoc]; exact List.drop_left' rfl
  have d2 : (A ++ B ++ R).drop (A.length + bytes.length + B.length) = [] := by
    apply List.drop_of_length_le; simp; omega
  have t1 : (A ++ B ++ R).take (A.length + bytes.length) = A ++ (B ++ R).take bytes.length := by
    rw [List.append_assoc, List.take_append, List.take_of_length_le (by omega)]; simp
  rw [d1, d2, t1, List.take_left' (l₁ := B) (l₂ := R) rfl, List.append_nil]
  generalize hJ : (B ++ R).take bytes.length = J
  have hJl : J.length = bytes.length := by rw [← hJ, List.length_take]; simp; omega
  have t2 : (A ++ J ++ B).take A.length = A := by rw [List.append_assoc]; exact List.take_left' rfl
  have d3 : (A ++ J ++ B).drop (A.length + bytes.length) = B := List.drop_left' (by simp; omega)
  rw [t2, d3]
  apply List.take_of_length_le; simp; omega

/-- the move `retain` makes for a kept character after `S.length` deleted bytes -/
theorem copyWithin_retain (K S C R : Bytes) :
    copyWithin (K ++ S ++ C ++ R) (K.length + S.length) K.length C.length
      = K ++ C ++ (S ++ C).drop C.length ++ R := by
  unfold copyWithin
  have t1 : (K ++ S ++ C ++ R).take K.length = K := by
    rw [List.append_assoc, List.append_assoc]; exact List.take_left' rfl
  have d1 : (K ++ S ++ C ++ R).drop (K.length + S.length) = C ++ R := by
    rw [List.append_assoc]; exact List.drop_left' (by simp)
  have d2 : (K ++ S ++ C ++ R).drop (K.length + C.length) = (S ++ C).drop C.length ++ R := by
    rw [List.append_assoc, List.append_assoc, List.drop_append]
    rw [List.drop_of_length_le (by omega)]
    simp only [List.nil_append, Nat.add_sub_cancel_left]
    rw [← List.append_assoc, List.drop_append_of_le_length (by simp)]
  rw [t1, d1, d2, List.take_left' rfl, List.append_assoc, List.append_assoc, List.append_assoc]

theorem length_le_encode (l : List Char) : l.length ≤ (encode l).length := by
  induction l with
  | nil => simp
  | cons c l ih =>
    have := encChar_length_pos c
    rw [encode_cons, List.length_append, List.length_cons]; omega

/-! ## push, push_str, extend, clone, into_bump_str, from_iter -/

theorem push_encode (l : List Char) (c : Char) : push (encode l) c = encode (l ++ [c]) := by
  simp [push, encode_append]

theorem pushStr_encode (l₁ l₂ : List Char) : pushStr (encode l₁) (encode l₂) = encode (l₁ ++ l₂) := by
  simp [pushStr, encode_append]

theorem extendChars_encode (l cs : List Char) : extendChars (encode l) cs = encode (l ++ cs) := by
  induction cs generalizing l with
  | nil => simp [extendChars]
  | cons c cs ih =>
    simp only [extendChars, List.foldl_cons, push_encode] at ih ⊢
    rw [ih]; simp

theorem extendStrs_encode (l : List Char) (ts : List (List Char)) :
    extendStrs (encode l) (ts.map encode) = encode (l ++ ts.flatten) := by
  induction ts generalizing l with
  | nil => simp [extendStrs]
  | cons t ts ih =>
    simp only [extendStrs, List.map_cons, List.foldl_cons, pushStr_encode] at ih ⊢
    rw [ih]; simp

theorem fromIter_encode (cs : List Char) : fromIter cs = encode cs := by
  have := extendChars_encode [] cs
  simpa [extendChars, fromIter] using this

/-! ## truncate, split_off, insert, insert_str -/

theorem truncate_split (l₁ l₂ : List Char) :
    truncate (encode (l₁ ++ l₂)) (encode l₁).length = .ok (encode l₁) := by
  have hb := boundary_of_split l₁ l₂
  have hle : (encode l₁).length ≤ (encode (l₁ ++ l₂)).length := by simp [encode_append]
  simp only [truncate, hle, if_true, hb]
  rw [encode_append, List.take_left' rfl]

theorem truncate_beyond (s : Bytes) (n : Nat) (h : s.length < n) : truncate s n = .ok s := by
  have : ¬ n ≤ s.length := by omega
  simp [truncate, this]

theorem truncate_panic_iff (s : Bytes) (n : Nat) :
    truncate s n = .panic ↔ n ≤ s.length ∧ isCharBoundary s n = false := by
  unfold truncate
  by_cases h : n ≤ s.length <;> by_cases hb : isCharBoundary s n = true <;> simp [h, hb]

theorem splitOff_split (l₁ l₂ : List Char) :
    splitOff (encode (l₁ ++ l₂)) (encode l₁).length = .ok (encode l₁, encode l₂) := by
  have hb := boundary_of_split l₁ l₂
  have hle : (encode l₁).length ≤ (encode (l₁ ++ l₂)).length := by simp [encode_append]
  simp only [splitOff, hb, if_true, hle]
  rw [encode_append, List.take_left' rfl, List.drop_left' rfl]

theorem splitOff_panic_iff (s : Bytes) (i : Nat) : splitOff s i = .panic ↔ isCharBoundary s i = false := by
  unfold splitOff
  by_cases hb : isCharBoundary s i = true
  · have := isCharBoundary_le hb; simp [hb, this]
  · simp [hb]

theorem insertStr_split (l₁ l₂ : List Char) (t : Bytes) :
    insertStr (encode (l₁ ++ l₂)) (encode l₁).length t = .ok (encode l₁ ++ t ++ encode l₂) := by
  have hb := boundary_of_split l₁ l₂
  simp only [insertStr, hb, if_true]
  rw [encode_append, insertBytes_eq]

theorem insertStr_panic_iff (s : Bytes) (i : Nat) (t : Bytes) :
    insertStr s i t = .panic ↔ isCharBoundary s i = false := by
  unfold insertStr; by_cases hb : isCharBoundary s i = true <;> simp [hb]

theorem insert_split (l₁ l₂ : List Char) (c : Char) :
    insert (encode (l₁ ++ l₂)) (encode l₁).length c = .ok (encode (l₁ ++ c :: l₂)) := by
  have hb := boundary_of_split l₁ l₂
  simp only [insert, hb, if_true]
  rw [encode_append, insertBytes_eq, encode_append, encode_cons, List.append_assoc]

theorem insert_panic_iff (s : Bytes) (i : Nat) (c : Char) :
    insert s i c = .panic ↔ isCharBoundary s i = false := by
  unfold insert; by_cases hb : isCharBoundary s i = true <;> simp [hb]

/-! ## remove -/

theorem remove_split (l₁ l₂ : List Char) (c : Char) :
    remove (encode (l₁ ++ c :: l₂)) (encode l₁).length = .ok (encode (l₁ ++ l₂), c) := by
  have hb := boundary_of_split l₁ (c :: l₂)
  have hd : (encode (l₁ ++ c :: l₂)).drop (encode l₁).length = encChar c ++ encode l₂ := by
    rw [encode_append, List.drop_left' rfl, encode_cons]
  simp only [remove, hb, Bool.not_true, Bool.false_eq_true, if_false, hd, decodeHead_enc]
  have hlen : (encode (l₁ ++ c :: l₂)) = encode l₁ ++ encChar c ++ encode l₂ := by
    rw [encode_append, encode_cons, List.append_assoc]
  have hnot : ¬ (encode l₁).length + (encChar c).length > (encode (l₁ ++ c :: l₂)).length := by
    rw [hlen]; simp
  simp only [hnot, if_false]
  rw [hlen, copyWithin_remove, encode_append]

theorem remove_end (l : List Char) : remove (encode l) (encode l).length = .panic := by
  have hb := isCharBoundary_length (encode l)
  simp [remove, hb, decodeHead]

theorem remove_nonboundary (s : Bytes) (i : Nat) (h : isCharBoundary s i = false) : remove s i = .panic := by
  simp [remove, h]

/-! ## pop -/

theorem getD_append_right' (A B : Bytes) (k : Nat) : (A ++ B).getD (A.length + k) 0 = B.getD k 0 := by
  rw [List.getD_eq_getElem?_getD, List.getD_eq_getElem?_getD, List.getElem?_append_right (by omega)]
  simp

theorem lastStart_snoc (A : Bytes) (c : Char) : lastStart (A ++ encChar c) = A.length := by
  obtain ⟨b, t, hbt, hb, ht, htl⟩ := enc_shape c
  rw [hbt]
  unfold lastStart
  simp only [List.length_append, List.length_cons]
  match t, ht, htl with
  | [], _, _ =>
    have e : A.length + (0 + 1) - 1 = A.length + 0 := by omega
    simp only [List.length_nil, e, getD_append_right']
    simp [hb]
  | [x], ht, _ =>
    have hx := ht x (by simp)
    have e1 : A.length + (1 + 1) - 1 = A.length + 1 := by omega
    have e2 : A.length + (1 + 1) - 2 = A.length + 0 := by omega
    simp only [List.length_cons, List.length_nil, Nat.zero_add, e1, e2, getD_append_right']
    simp [hb, hx]
  | [x, y], ht, _ =>
    have hx := ht x (by simp)
    have hy := ht y (by simp)
    have e1 : A.length + (1 + 1 + 1) - 1 = A.length + 2 := by omega
    have e2 : A.length + (1 + 1 + 1) - 2 = A.length + 1 := by omega
    have e3 : A.length + (1 + 1 + 1) - 3 = A.length + 0 := by omega
    simp only [List.length_cons, List.length_nil, Nat.zero_add, e1, e2, e3, getD_append_right']
    simp [hb, hx, hy]
  | [x, y, z], ht, _ =>
    have hx := ht x (by simp)
    have hy := ht y (by simp)
    have hz := ht z (by simp)
    have e1 : A.length + (1 + 1 + 1 + 1) - 1 = A.length + 3 := by omega
    have e2 : A.length + (1 + 1 + 1 + 1) - 2 = A.length + 2 := by omega
    have e3 : A.length + (1 + 1 + 1 + 1) - 3 = A.length + 1 := by omega
    simp only [List.length_cons, List.length_nil, Nat.zero_add, e1, e2, e3, getD_append_right']
    simp [hx, hy, hz]
  | _ :: _ :: _ :: _ :: _, _, htl => simp at htl

theorem pop_nil : pop [] = .ok ([], none) := by simp [pop]

theorem pop_snoc (l : List Char) (c : Char) : pop (encode (l ++ [c])) = .ok (encode l, some c) := by
  have he : encode (l ++ [c]) = encode l ++ encChar c := by simp [encode_append]
  have hne : encode l ++ encChar c ≠ [] := by
    intro h
    have h2 := congrArg List.length h
    rw [List.length_append, List.length_nil] at h2
    have := encChar_length_pos c; omega
  rw [he]
  simp only [pop, hne, if_false, lastStart_snoc, List.drop_left' rfl]
  have hd := decodeHead_enc c []
  rw [List.append_nil] at hd
  simp only [hd, List.length_append, if_true]
  simp

end Bump.Str
