import BumpVerif.Proofs.StrOps
/-!
# `String::retain`: the compaction loop refines `filter` (closure as an answer function)
-/
namespace Bump.Str

/-- what `retain` means on a text: keep the characters whose call (numbered from `k`) answers `true` -/
def retainSpec (ans : Nat → Bool) : Nat → List Char → List Char
  | _, [] => []
  | k, c :: l => if ans k then c :: retainSpec ans (k + 1) l else retainSpec ans (k + 1) l

theorem retainSpec_eq_filter (ans : Nat → Bool) (k : Nat) (l : List Char) :
    retainSpec ans k l = ((l.zipIdx k).filter (fun p => ans p.2)).map (·.1) := by
  induction l generalizing k with
  | nil => rfl
  | cons c l ih =>
    simp only [retainSpec, List.zipIdx_cons, List.filter_cons]
    by_cases h : ans k <;> simp [h, ih]

/-- Loop invariant: the buffer is `kept ++ S ++ rest` where `S` (`del` stale bytes) is what the
deleted characters left behind; the loop ends with the kept text followed by nothing.  The
panic index, if any, lies beyond the calls still to come. -/
theorem retainLoop_spec (guard : Bool) (ans : Nat → Bool) (panicAt : Option Nat) (rest : List Char) :
    ∀ (kept : List Char) (S : Bytes) (k fuel len : Nat),
      rest.length ≤ fuel →
      len = (encode kept ++ S ++ encode rest).length →
      (∀ p, panicAt = some p → k + rest.length ≤ p) →
      retainLoop guard ans panicAt len fuel ⟨encode kept ++ S ++ encode rest, (encode kept).length + S.length, S.length, k⟩
        = .ok ⟨encode (kept ++ retainSpec ans k rest), false, k + rest.length⟩ := by
  induction rest with
  | nil =>
    intro kept S k fuel len _ hlen _
    have hidx : ¬ (encode kept).length + S.length < len := by rw [hlen]; simp
    have hres : (if S.length > 0 then (encode kept ++ S ++ encode []).take (len - S.length) else encode kept ++ S ++ encode [])
        = encode kept := by
      by_cases hS : S.length > 0
      · simp only [hS, if_true, encode_nil, List.append_nil]
        rw [hlen]; simp only [encode_nil, List.append_nil, List.length_append, Nat.add_sub_cancel]
        exact List.take_left' rfl
      · have : S = [] := List.eq_nil_of_length_eq_zero (by omega)
        simp [this]
    cases fuel with
    | zero => simp only [retainLoop, hidx, if_false, hres]; simp [retainSpec]
    | succ f => simp only [retainLoop, hidx, if_false, hres]; simp [retainSpec]
  | cons c r ih =>
    intro kept S k fuel len hf hlen hp
    match fuel, hf with
    | f + 1, hf =>
      have hpos := encChar_length_pos c
      have hlen' : len = (encode kept).length + S.length + ((encChar c).length + (encode r).length) := by
        rw [hlen]; simp only [encode_cons, List.length_append]
      have hidx : (encode kept).length + S.length < len := by omega
      have hdrop : (encode kept ++ S ++ encode (c :: r)).drop ((encode kept).length + S.length) = encChar c ++ encode r := by
        rw [encode_cons]; exact List.drop_left' (by simp)
      have hnot : ¬ (encode kept).length + S.length + (encChar c).length > len := by omega
      have hpa : ¬ panicAt = some k := by
        intro h; have := hp k h; simp at this; omega
      simp only [retainLoop, hidx, if_true, hdrop, decodeHead_enc, hnot, if_false, hpa]
      by_cases ha : ans k = true
      · simp only [ha, Bool.not_true, Bool.false_eq_true, if_false]
        have hspec : retainSpec ans k (c :: r) = c :: retainSpec ans (k + 1) r := by simp [retainSpec, ha]
        by_cases hS : S.length > 0
        · simp only [hS, if_true]
          have hbuf : encode kept ++ S ++ encode (c :: r) = encode kept ++ S ++ encChar c ++ encode r := by
            rw [encode_cons]; simp [List.append_assoc]
          have hsub : (encode kept).length + S.length - S.length = (encode kept).length := by omega
          rw [hbuf, hsub, copyWithin_retain]
          have hS' : ((S ++ encChar c).drop (encChar c).length).length = S.length := by simp
          have hk' : encode kept ++ encChar c = encode (kept ++ [c]) := by simp [encode_append]
          rw [hk']
          have := ih (kept ++ [c]) ((S ++ encChar c).drop (encChar c).length) (k + 1) f len
            (by simp at hf; omega)
            (by rw [hlen', ← hk']; simp only [List.length_append, hS']; omega)
            (by intro p h; have := hp p h; simp at this ⊢; omega)
          rw [hS'] at this
          have hi : (encode (kept ++ [c])).length + S.length = (encode kept).length + S.length + (encChar c).length := by
            rw [← hk', List.length_append]; omega
          rw [hi] at this
          rw [this, hspec]
          simp [Nat.add_assoc, Nat.add_comm 1]
        · have hS0 : S = [] := List.eq_nil_of_length_eq_zero (by omega)
          subst hS0
          simp only [List.length_nil, Nat.lt_irrefl, if_false, gt_iff_lt]
          have hbuf : encode kept ++ [] ++ encode (c :: r) = encode (kept ++ [c]) ++ [] ++ encode r := by
            simp [encode_append]
          have := ih (kept ++ [c]) [] (k + 1) f len (by simp at hf; omega)
            (by rw [hlen, hbuf]) (by intro p h; have := hp p h; simp at this ⊢; omega)
          have hi : (encode (kept ++ [c])).length + ([] : Bytes).length = (encode kept).length + 0 + (encChar c).length := by
            simp [encode_append]
          rw [hi] at this
          rw [hbuf]
          simp only [List.length_nil, Nat.add_zero] at this ⊢
          rw [this, hspec]
          simp [Nat.add_assoc, Nat.add_comm 1]
      · have ha' : ans k = false := by simpa using ha
        simp only [ha', Bool.not_false, if_true]
        have hspec : retainSpec ans k (c :: r) = retainSpec ans (k + 1) r := by simp [retainSpec, ha']
        have hbuf : encode kept ++ S ++ encode (c :: r) = encode kept ++ (S ++ encChar c) ++ encode r := by
          rw [encode_cons]; simp [List.append_assoc]
        have := ih kept (S ++ encChar c) (k + 1) f len (by simp at hf; omega)
          (by rw [hlen, hbuf]) (by intro p h; have := hp p h; simp at this ⊢; omega)
        simp only [List.length_append] at this
        rw [hbuf]
        simp only [← Nat.add_assoc] at this ⊢
        rw [this, hspec]
        simp [Nat.add_assoc, Nat.add_comm 1]

/-- **`retain` with a closure that does not panic refines `filter`** (and the closure is called
once per character, in order) — with or without the unwind guard. -/
theorem retainWith_spec (guard : Bool) (l : List Char) (ans : Nat → Bool) :
    retainWith guard (encode l) ans none = .ok ⟨encode (retainSpec ans 0 l), false, l.length⟩ := by
  have := retainLoop_spec guard ans none l [] [] 0 ((encode l).length + 1) (encode l).length
    (by have := length_le_encode l; omega) (by simp) (by intro p h; cases h)
  simpa [retainWith] using this

theorem retain_spec (l : List Char) (ans : Nat → Bool) :
    retain (encode l) ans none = .ok ⟨encode (retainSpec ans 0 l), false, l.length⟩ :=
  retainWith_spec _ l ans

/-- a panic index beyond the last call changes nothing -/
theorem retainWith_spec_late_panic (guard : Bool) (l : List Char) (ans : Nat → Bool) (p : Nat) (hp : l.length ≤ p) :
    retainWith guard (encode l) ans (some p) = .ok ⟨encode (retainSpec ans 0 l), false, l.length⟩ := by
  have := retainLoop_spec guard ans (some p) l [] [] 0 ((encode l).length + 1) (encode l).length
    (by have := length_le_encode l; omega) (by simp) (by intro q h; cases h; simpa using hp)
  simpa [retainWith] using this

/-- When the closure panics before anything was deleted the bytes are untouched. -/
theorem retainLoop_panic_nodel (ans : Nat → Bool) (p : Nat) (rest : List Char) :
    ∀ (kept : List Char) (k fuel len : Nat),
      rest.length ≤ fuel →
      len = (encode kept ++ encode rest).length →
      k ≤ p → p < k + rest.length → (∀ j, k ≤ j → j < p → ans j = true) →
      retainLoop false ans (some p) len fuel ⟨encode kept ++ encode rest, (encode kept).length, 0, k⟩
        = .ok ⟨encode kept ++ encode rest, true, p + 1⟩ := by
  induction rest with
  | nil => intro kept k fuel len _ _ h1 h2 _; simp at h2; omega
  | cons c r ih =>
    intro kept k fuel len hf hlen hkp hpk hall
    match fuel, hf with
    | f + 1, hf =>
      have hpos := encChar_length_pos c
      have hlen' : len = (encode kept).length + ((encChar c).length + (encode r).length) := by
        rw [hlen]; simp only [encode_cons, List.length_append]
      have hidx : (encode kept).length < len := by omega
      have hdrop : (encode kept ++ encode (c :: r)).drop (encode kept).length = encChar c ++ encode r := by
        rw [encode_cons]; exact List.drop_left' rfl
      have hnot : ¬ (encode kept).length + (encChar c).length > len := by omega
      simp only [retainLoop, hidx, if_true, hdrop, decodeHead_enc, hnot, if_false]
      by_cases hk : k = p
      · subst hk; simp
      · have hne : ¬ (some p = some k) := by intro h; cases h; exact hk rfl
        have ha := hall k (Nat.le_refl _) (by omega)
        simp only [hne, if_false, ha, Bool.not_true, Bool.false_eq_true, Nat.lt_irrefl, gt_iff_lt]
        have hbuf : encode kept ++ encode (c :: r) = encode (kept ++ [c]) ++ encode r := by
          simp [encode_append]
        have := ih (kept ++ [c]) (k + 1) f len (by simp at hf; omega) (by rw [hlen, hbuf])
          (by omega) (by simp at hpk; omega) (by intro j h1 h2; exact hall j (by omega) h2)
        have hi : (encode (kept ++ [c])).length = (encode kept).length + (encChar c).length := by
          simp [encode_append]
        rw [hi] at this
        rw [hbuf, this]

theorem retain_panic_nodel (l : List Char) (ans : Nat → Bool) (p : Nat) (hp : p < l.length)
    (hall : ∀ j, j < p → ans j = true) :
    retainWith false (encode l) ans (some p) = .ok ⟨encode l, true, p + 1⟩ := by
  have := retainLoop_panic_nodel ans p l [] 0 ((encode l).length + 1) (encode l).length
    (by have := length_le_encode l; omega) (by simp) (Nat.zero_le _) (by omega) (by intro j _ h; exact hall j h)
  simpa [retainWith] using this

/-- With the unwind guard: whatever the closure answered before it panicked, the string is cut
back to the characters kept so far. -/
theorem retainLoop_panic_guarded (ans : Nat → Bool) (p : Nat) (rest : List Char) :
    ∀ (kept : List Char) (S : Bytes) (k fuel len : Nat),
      rest.length ≤ fuel →
      len = (encode kept ++ S ++ encode rest).length →
      k ≤ p → p < k + rest.length →
      retainLoop true ans (some p) len fuel
          ⟨encode kept ++ S ++ encode rest, (encode kept).length + S.length, S.length, k⟩
        = .ok ⟨encode (kept ++ retainSpec ans k (rest.take (p - k))), true, p + 1⟩ := by
  induction rest with
  | nil => intro kept S k fuel len _ _ h1 h2; simp at h2; omega
  | cons c r ih =>
    intro kept S k fuel len hf hlen hkp hpk
    match fuel, hf with
    | f + 1, hf =>
      have hpos := encChar_length_pos c
      have hlen' : len = (encode kept).length + S.length + ((encChar c).length + (encode r).length) := by
        rw [hlen]; simp only [encode_cons, List.length_append]
      have hidx : (encode kept).length + S.length < len := by omega
      have hdrop : (encode kept ++ S ++ encode (c :: r)).drop ((encode kept).length + S.length) = encChar c ++ encode r := by
        rw [encode_cons]; exact List.drop_left' (by simp)
      have hnot : ¬ (encode kept).length + S.length + (encChar c).length > len := by omega
      simp only [retainLoop, hidx, if_true, hdrop, decodeHead_enc, hnot, if_false]
      by_cases hk : k = p
      · subst hk
        simp only [if_true, Nat.add_sub_cancel, Nat.sub_self, List.take_zero, retainSpec, List.append_nil]
        rw [List.append_assoc, List.take_left' rfl]
      · have hne : ¬ (some p = some k) := by intro h; cases h; exact hk rfl
        have hpk' : p - k = (p - (k + 1)) + 1 := by omega
        simp only [hne, if_false]
        by_cases ha : ans k = true
        · simp only [ha, Bool.not_true, Bool.false_eq_true, if_false]
          have hspec : retainSpec ans k ((c :: r).take (p - k)) = c :: retainSpec ans (k + 1) (r.take (p - (k + 1))) := by
            rw [hpk']; simp [retainSpec, ha]
          by_cases hS : S.length > 0
          · simp only [hS, if_true]
            have hbuf : encode kept ++ S ++ encode (c :: r) = encode kept ++ S ++ encChar c ++ encode r := by
              rw [encode_cons]; simp [List.append_assoc]
            have hsub : (encode kept).length + S.length - S.length = (encode kept).length := by omega
            rw [hbuf, hsub, copyWithin_retain]
            have hS' : ((S ++ encChar c).drop (encChar c).length).length = S.length := by simp
            have hk' : encode kept ++ encChar c = encode (kept ++ [c]) := by simp [encode_append]
            rw [hk']
            have := ih (kept ++ [c]) ((S ++ encChar c).drop (encChar c).length) (k + 1) f len
              (by simp at hf; omega)
              (by rw [hlen', ← hk']; simp only [List.length_append, hS']; omega)
              (by omega) (by simp at hpk; omega)
            rw [hS'] at this
            have hi : (encode (kept ++ [c])).length + S.length = (encode kept).length + S.length + (encChar c).length := by
              rw [← hk', List.length_append]; omega
            rw [hi] at this
            rw [this, hspec]
            simp
          · have hS0 : S = [] := List.eq_nil_of_length_eq_zero (by omega)
            subst hS0
            simp only [List.length_nil, Nat.lt_irrefl, if_false, gt_iff_lt]
            have hbuf : encode kept ++ [] ++ encode (c :: r) = encode (kept ++ [c]) ++ [] ++ encode r := by
              simp [encode_append]
            have := ih (kept ++ [c]) [] (k + 1) f len (by simp at hf; omega)
              (by rw [hlen, hbuf]) (by omega) (by simp at hpk; omega)
            have hi : (encode (kept ++ [c])).length + ([] : Bytes).length = (encode kept).length + 0 + (encChar c).length := by
              simp [encode_append]
            rw [hi] at this
            rw [hbuf]
            simp only [List.length_nil, Nat.add_zero] at this ⊢
            rw [this, hspec]
            simp
        · have ha' : ans k = false := by simpa using ha
          simp only [ha', Bool.not_false, if_true]
          have hspec : retainSpec ans k ((c :: r).take (p - k)) = retainSpec ans (k + 1) (r.take (p - (k + 1))) := by
            rw [hpk']; simp [retainSpec, ha']
          have hbuf : encode kept ++ S ++ encode (c :: r) = encode kept ++ (S ++ encChar c) ++ encode r := by
            rw [encode_cons]; simp [List.append_assoc]
          have := ih kept (S ++ encChar c) (k + 1) f len (by simp at hf; omega)
            (by rw [hlen, hbuf]) (by omega) (by simp at hpk; omega)
          simp only [List.length_append] at this
          rw [hbuf]
          simp only [← Nat.add_assoc] at this ⊢
          rw [this, hspec]

theorem retain_panic_guarded (l : List Char) (ans : Nat → Bool) (p : Nat) (hp : p < l.length) :
    retainWith true (encode l) ans (some p) = .ok ⟨encode (retainSpec ans 0 (l.take p)), true, p + 1⟩ := by
  have := retainLoop_panic_guarded ans p l [] [] 0 ((encode l).length + 1) (encode l).length
    (by have := length_le_encode l; omega) (by simp) (Nat.zero_le _) (by omega)
  simpa [retainWith] using this

end Bump.Str
