import BumpVerif.Model.Sys
import BumpVerif.Proofs.Init
/-! The live-block invariant over whole operation histories (C01's main theorem). -/
namespace Bump
open Gen

def BlockInv (a : Arena) (b : Block) : Prop :=
  a.M ∣ b.ptr ∧ 0 < b.ptr ∧ b.ptr + b.size < 2 ^ 63 ∧ (b.size = 0 ∨ InChunk a b.ptr b.size)

def NoOverlap (b c : Block) : Prop := b.size = 0 ∨ c.size = 0 ∨ Disj b.ptr b.size c.ptr c.size

theorem NoOverlap.symm {b c} (h : NoOverlap b c) : NoOverlap c b := by
  unfold NoOverlap Disj at *; omega

structure LiveInv (E : Nat) (y : Sys) : Prop where
  wf : ArenaWF E y.st.a
  blocks : ∀ b ∈ y.live, BlockInv y.st.a b
  disj : y.live.Pairwise NoOverlap

/-- caller obligations (the `unsafe` parts of the API) and layout validity -/
def OpValid (y : Sys) : Op → Prop
  | .alloc sz al _ => IsPow2 al ∧ sz + al ≤ 2 ^ 63
  | .array _ eal _ _ => IsPow2 eal ∧ eal ≤ 2 ^ 63
  | .atw sz al ok inner _ => IsPow2 al ∧ sz + al ≤ 2 ^ 63 ∧
      (∀ i ∈ inner, match i with | .keep s a => IsPow2 a ∧ s + a ≤ 2 ^ 63 | .release s a => IsPow2 a ∧ s + a ≤ 2 ^ 63) ∧
      (ok = true ∨ inner = [])
  | .tfill _ eal _ _ => IsPow2 eal ∧ eal ≤ 2 ^ 63
  | .aalloc sz al => IsPow2 al ∧ sz + al ≤ 2 ^ 63
  | .afree p sz al => ⟨p, sz⟩ ∈ y.live ∧ IsPow2 al ∧ al ∣ p
  | .agrow p osz oal nsz nal _ => ⟨p, osz⟩ ∈ y.live ∧ IsPow2 oal ∧ oal ∣ p ∧ IsPow2 nal ∧ osz ≤ nsz ∧ nsz + nal ≤ 2 ^ 63
  | .ashrink p osz oal nsz nal => ⟨p, osz⟩ ∈ y.live ∧ IsPow2 oal ∧ oal ∣ p ∧ IsPow2 nal ∧ nsz ≤ osz ∧ nsz + nal ≤ 2 ^ 63
  | .reset => True
  | .limit _ => True

theorem BlockInv.mono {a a' : Arena} {b : Block} (h : BlockInv a b) (hm : a'.M = a.M)
    (hin : ∀ x xn, InChunk a x xn → InChunk a' x xn) : BlockInv a' b := by
  obtain ⟨h1, h2, h3, h4⟩ := h
  refine ⟨by rw [hm]; exact h1, h2, h3, ?_⟩
  rcases h4 with h0 | hi
  · exact Or.inl h0
  · exact Or.inr (hin _ _ hi)

/-- adding the block of a successful allocation keeps the invariant -/
theorem alloc_live {E sz p} {s s' : St} {live : List Block} (hE : EnvOK E) (inv : LiveInv E ⟨s, live⟩)
    (hwf' : ArenaWF E s'.a) (hm : s'.a.M = s.a.M) (hal : s.a.M ∣ p) (hpos : 0 < p)
    (sh : AllocShape E s.a s'.a p sz) :
    LiveInv E ⟨s', live ++ [⟨p, sz⟩]⟩ := by
  obtain ⟨f1, f2⟩ := sh.frame inv.wf hwf'
  have hhi := sh.hi hE inv.wf hwf'
  refine ⟨hwf', ?_, ?_⟩
  · intro b hb
    simp only [List.mem_append, List.mem_singleton] at hb
    rcases hb with hb | rfl
    · exact (inv.blocks b hb).mono hm (fun x xn hx => (f1 x xn hx).1)
    · refine ⟨by rw [hm]; exact hal, hpos, hhi, ?_⟩
      by_cases hz : sz = 0
      · exact Or.inl hz
      · exact Or.inr (f2 (by omega))
  · rw [List.pairwise_append]
    refine ⟨inv.disj, List.pairwise_singleton _ _, ?_⟩
    intro b hb c hc
    simp only [List.mem_singleton] at hc
    subst hc
    obtain ⟨_, _, _, h4⟩ := inv.blocks b hb
    unfold NoOverlap
    rcases h4 with h0 | hi
    · exact Or.inl h0
    · have := (f1 _ _ hi).2
      right; right; show Disj b.ptr b.size p sz; unfold Disj at *; omega

end Bump

namespace Bump
open Gen

theorem pairwise_erase_rel {α} [DecidableEq α] {R : α → α → Prop} (hsymm : ∀ a b, R a b → R b a)
    {l : List α} (hp : l.Pairwise R) {x : α} (hx : x ∈ l) : ∀ b ∈ l.erase x, R b x := by
  induction l with
  | nil => cases hx
  | cons h t ih =>
    intro b hb
    obtain ⟨hh, ht⟩ := List.pairwise_cons.mp hp
    by_cases he : h = x
    · subst he
      rw [List.erase_cons_head] at hb
      exact hsymm _ _ (hh b hb)
    · rw [List.erase_cons_tail (by simpa using he)] at hb
      have hxt : x ∈ t := by
        rcases List.mem_cons.mp hx with h1 | h1
        · exact absurd h1.symm he
        · exact h1
      rcases List.mem_cons.mp hb with rfl | hb'
      · exact hh x hxt
      · exact ih ht hxt b hb'

theorem blockOK_of_inv {a : Arena} {p sz al : Nat} (h : BlockInv a ⟨p, sz⟩) (hA : IsPow2 al) (hd : al ∣ p) :
    BlockOK a p sz al := ⟨hA, hd, h.1, h.2.1, h.2.2.1, h.2.2.2⟩

/-- `dealloc` frame (proof of C12.dealloc_contract, shared with the history theorem) -/
theorem dealloc_frame {E p sz oal} (s : St) (hE : EnvOK E) (h : ArenaWF E s.a) (hb : BlockOK s.a p sz oal) :
    (dealloc E p sz s).2 = .ok () ∧ ArenaWF E (dealloc E p sz s).1.a ∧ (dealloc E p sz s).1.a.M = s.a.M ∧
    ∀ b bn, 0 < bn → InChunk s.a b bn → s.a.M ∣ b → (sz = 0 ∨ Disj b bn p sz) → InChunk (dealloc E p sz s).1.a b bn := by
  obtain ⟨h1, h2, _, _, h5, _, h7⟩ := dealloc_spec (p := p) (sz := sz) s hE h (cur_block hE h hb)
  refine ⟨h1, h2, h5, ?_⟩
  intro b bn hbn ⟨x, hx, hx1, hx2⟩ hMb hd
  rcases h7 with he | ⟨c, cs, r, hc, hcp, hr, hrle, hc'⟩
  · rw [he]; exact ⟨x, hx, hx1, hx2⟩
  · rw [hc] at hx
    simp only [List.mem_cons] at hx
    rcases hx with rfl | hx
    · have hge : p + sz ≤ b := by unfold Disj at hd; omega
      have hrb : r ≤ b := roundUpTo_le h.m_pos hr hMb hge
      exact ⟨{ x with ptr := r }, by rw [hc']; exact List.mem_cons_self, hrb, hx2⟩
    · exact ⟨x, by rw [hc']; exact List.mem_cons_of_mem _ hx, hx1, hx2⟩

/-- removing a live block with `dealloc` keeps the invariant -/
theorem dealloc_live {E p sz al} {s : St} {live : List Block} (hE : EnvOK E) (inv : LiveInv E ⟨s, live⟩)
    (hmem : ⟨p, sz⟩ ∈ live) (hA : IsPow2 al) (hd : al ∣ p) :
    (dealloc E p sz s).2 = .ok () ∧ LiveInv E ⟨(dealloc E p sz s).1, live.erase ⟨p, sz⟩⟩ := by
  have hb := blockOK_of_inv (inv.blocks _ hmem) hA hd
  obtain ⟨h1, h2, h3, h4⟩ := dealloc_frame s hE inv.wf hb
  refine ⟨h1, h2, ?_, inv.disj.sublist (List.erase_sublist)⟩
  intro b hbm
  have hbl : b ∈ live := List.mem_of_mem_erase hbm
  obtain ⟨g1, g2, g3, g4⟩ := inv.blocks b hbl
  refine ⟨by rw [h3]; exact g1, g2, g3, ?_⟩
  by_cases hz : b.size = 0
  · exact Or.inl hz
  · right
    have hi := g4.resolve_left hz
    have hrel := pairwise_erase_rel (fun _ _ => NoOverlap.symm) inv.disj hmem b hbm
    apply h4 b.ptr b.size (by omega) hi g1
    simp only [NoOverlap] at hrel
    rcases hrel with h0 | h0 | h0
    · exact absurd h0 hz
    · exact Or.inl h0
    · exact Or.inr h0

/-- replacing a live block by the result of `grow`/`shrink` keeps the invariant -/
theorem realloc_live {E p osz nsz nal q} {s s' : St} {live : List Block} (hE : EnvOK E) (inv : LiveInv E ⟨s, live⟩)
    (hmem : ⟨p, osz⟩ ∈ live) (post : ReallocPost E s s' p osz nsz nal (.ok q)) (hhi : q + nsz < 2 ^ 63) :
    LiveInv E ⟨s', live.erase ⟨p, osz⟩ ++ [⟨q, nsz⟩]⟩ := by
  obtain ⟨hwf', _, hMq, hpos, hplace, hframe, _⟩ := post.ok q rfl
  refine ⟨hwf', ?_, ?_⟩
  · intro b hb
    simp only [List.mem_append, List.mem_singleton] at hb
    rcases hb with hbm | rfl
    · have hbl : b ∈ live := List.mem_of_mem_erase hbm
      obtain ⟨g1, g2, g3, g4⟩ := inv.blocks b hbl
      refine ⟨by rw [post.m_eq]; exact g1, g2, g3, ?_⟩
      by_cases hz : b.size = 0
      · exact Or.inl hz
      · right
        have hi := g4.resolve_left hz
        have hrel := pairwise_erase_rel (fun _ _ => NoOverlap.symm) inv.disj hmem b hbm
        refine (hframe b.ptr b.size (by omega) hi ?_).1
        simp only [NoOverlap] at hrel
        rcases hrel with h0 | h0 | h0
        · exact absurd h0 hz
        · exact Or.inl h0
        · exact Or.inr h0
    · exact ⟨by rw [post.m_eq]; exact hMq, hpos, hhi, hplace⟩
  · rw [List.pairwise_append]
    refine ⟨inv.disj.sublist List.erase_sublist, List.pairwise_singleton _ _, ?_⟩
    intro b hbm c hc
    simp only [List.mem_singleton] at hc
    subst hc
    have hbl : b ∈ live := List.mem_of_mem_erase hbm
    obtain ⟨_, _, _, g4⟩ := inv.blocks b hbl
    simp only [NoOverlap]
    by_cases hz : b.size = 0
    · exact Or.inl hz
    · have hi := g4.resolve_left hz
      have hrel := pairwise_erase_rel (fun _ _ => NoOverlap.symm) inv.disj hmem b hbm
      simp only [NoOverlap] at hrel
      have := (hframe b.ptr b.size (by omega) hi (by
        rcases hrel with h0 | h0 | h0
        · exact absurd h0 hz
        · exact Or.inl h0
        · exact Or.inr h0)).2
      rcases this with h0 | h0
      · exact Or.inr (Or.inl h0)
      · exact Or.inr (Or.inr h0)

end Bump

namespace Bump
open Gen

theorem arrayLayout_some {esz eal n t : Nat} (heal : eal ≤ 2 ^ 63) (h : arrayLayout esz eal n = some t) :
    t = esz * n ∧ t + eal ≤ 2 ^ 63 := by
  unfold arrayLayout at h
  by_cases hz : esz = 0
  · subst hz
    simp only [ne_eq, not_true_eq_false, false_and, ↓reduceIte, Nat.zero_mul, Option.some.injEq] at h
    subst h; exact ⟨by simp, by omega⟩
  · have hpos : 0 < esz := Nat.pos_of_ne_zero hz
    by_cases hn : n > (2 ^ 63 - eal) / esz
    · rw [if_pos ⟨hz, hn⟩] at h; cases h
    · rw [if_neg (by intro hh; exact hn hh.2)] at h
      cases h
      refine ⟨rfl, ?_⟩
      have : ¬ (2 ^ 63 - eal) / esz < n := hn
      rw [Nat.div_lt_iff_lt_mul hpos, Nat.mul_comm n esz] at this
      omega

/-- the arena did not change: the invariant carries over to any state with the same arena -/
theorem live_same_arena {E} {s s' : St} {live : List Block} (inv : LiveInv E ⟨s, live⟩) (ha : s'.a = s.a) :
    LiveInv E ⟨s', live⟩ := by
  refine ⟨by show ArenaWF E s'.a; rw [ha]; exact inv.wf, ?_, inv.disj⟩
  intro b hb
  have := inv.blocks b hb
  show BlockInv s'.a b
  rw [ha]; exact this

/-- a successful allocation (any flavour), packaged -/
theorem allocPost_live {E sz al p} {s s' : St} {live : List Block} {o : Outcome Nat} (hE : EnvOK E)
    (inv : LiveInv E ⟨s, live⟩) (sp : AllocPost E s s' sz al o) (ho : o = .ok p) :
    LiveInv E ⟨s', live ++ [⟨p, sz⟩]⟩ := by
  obtain ⟨hwf', _, hm, hpos, hsh, _⟩ := sp.ok p ho
  exact alloc_live hE inv hwf' sp.m_eq hm hpos hsh

theorem allocPost_fail_live {E sz al} {s s' : St} {live : List Block} {o : Outcome Nat}
    (inv : LiveInv E ⟨s, live⟩) (sp : AllocPost E s s' sz al o) (ho : o = .err ∨ o = .panic) :
    LiveInv E ⟨s', live⟩ := live_same_arena inv (sp.fail ho).1

/-- allocate a block and give it straight back: nothing live is affected -/
theorem alloc_dealloc_live {E sz al p} {s s' : St} {live : List Block} {o : Outcome Nat} (hE : EnvOK E)
    (inv : LiveInv E ⟨s, live⟩) (hA : IsPow2 al) (sp : AllocPost E s s' sz al o) (ho : o = .ok p) :
    (dealloc E p sz s').2 = .ok () ∧ LiveInv E ⟨(dealloc E p sz s').1, live⟩ := by
  have inv1 := allocPost_live hE inv sp ho
  obtain ⟨_, hal, _, _, _, _⟩ := sp.ok p ho
  have hmem : (⟨p, sz⟩ : Block) ∈ live ++ [⟨p, sz⟩] := by simp
  have hb := blockOK_of_inv (inv1.blocks _ hmem) hA hal
  obtain ⟨h1, h2, h3, h4⟩ := dealloc_frame s' hE inv1.wf hb
  refine ⟨h1, h2, ?_, inv.disj⟩
  intro b hbl
  obtain ⟨g1, g2, g3, g4⟩ := inv1.blocks b (by simp [hbl])
  refine ⟨by rw [h3]; exact g1, g2, g3, ?_⟩
  by_cases hz : b.size = 0
  · exact Or.inl hz
  · right
    have hi := g4.resolve_left hz
    apply h4 b.ptr b.size (by omega) hi g1
    have hd := inv1.disj
    rw [List.pairwise_append] at hd
    have := hd.2.2 b hbl ⟨p, sz⟩ (by simp)
    simp only [NoOverlap] at this
    rcases this with h0 | h0 | h0
    · exact absurd h0 hz
    · exact Or.inl h0
    · exact Or.inr h0

/-- chunks are never lost or resized by allocation / deallocation: every chunk of `a` is still a
chunk of `a'` (with possibly another finger) -/
def Persist (a a' : Arena) : Prop :=
  a'.M = a.M ∧ ∀ c ∈ a.chunks, ∃ c' ∈ a'.chunks, c'.data = c.data ∧ c'.size = c.size

theorem Persist.refl (a : Arena) : Persist a a := ⟨rfl, fun c hc => ⟨c, hc, rfl, rfl⟩⟩
theorem Persist.trans {a b c : Arena} (h1 : Persist a b) (h2 : Persist b c) : Persist a c := by
  refine ⟨by rw [h2.1, h1.1], ?_⟩
  intro x hx
  obtain ⟨y, hy, e1, e2⟩ := h1.2 x hx
  obtain ⟨z, hz, f1, f2⟩ := h2.2 y hy
  exact ⟨z, hz, by rw [f1, e1], by rw [f2, e2]⟩
theorem Persist.of_eq {a b : Arena} (h : b = a) : Persist a b := by subst h; exact Persist.refl _

theorem AllocShape.persist {E a a' p sz} (hm : a'.M = a.M) (sh : AllocShape E a a' p sz) : Persist a a' := by
  refine ⟨hm, ?_⟩
  intro x hx
  rcases sh with ⟨_, ha, _, _⟩ | ⟨c, cs, hc, hc', _, _⟩ | ⟨c, hc', _⟩
  · rw [ha]; exact ⟨x, hx, rfl, rfl⟩
  · rw [hc] at hx
    simp only [List.mem_cons] at hx
    rcases hx with rfl | hx
    · exact ⟨{ x with ptr := p }, by rw [hc']; exact List.mem_cons_self, rfl, rfl⟩
    · exact ⟨x, by rw [hc']; exact List.mem_cons_of_mem _ hx, rfl, rfl⟩
  · exact ⟨x, by rw [hc']; exact List.mem_cons_of_mem _ hx, rfl, rfl⟩

theorem dealloc_persist {E p sz} (s : St) (hE : EnvOK E) (h : ArenaWF E s.a)
    (hblk : (s.a.cur E).ptr = p → p + sz ≤ (s.a.cur E).footer) : Persist s.a (dealloc E p sz s).1.a := by
  obtain ⟨_, _, _, _, hm, _, h7⟩ := dealloc_spec s hE h hblk
  refine ⟨hm, ?_⟩
  intro x hx
  rcases h7 with he | ⟨c, cs, r, hc, _, _, _, hc'⟩
  · rw [he]; exact ⟨x, hx, rfl, rfl⟩
  · rw [hc] at hx
    simp only [List.mem_cons] at hx
    rcases hx with rfl | hx
    · exact ⟨{ x with ptr := r }, by rw [hc']; exact List.mem_cons_self, rfl, rfl⟩
    · exact ⟨x, by rw [hc']; exact List.mem_cons_of_mem _ hx, rfl, rfl⟩

def InnerValid : Inner → Prop
  | .keep s a => IsPow2 a ∧ s + a ≤ 2 ^ 63
  | .release s a => IsPow2 a ∧ s + a ≤ 2 ^ 63

/-- caller obligations, with no restriction on what a failing initialiser did in the arena -/
def OpValidFull (y : Sys) : Op → Prop
  | .atw sz al _ inner _ => IsPow2 al ∧ sz + al ≤ 2 ^ 63 ∧ (∀ i ∈ inner, InnerValid i)
  | op => OpValid y op


/-- the initialiser's own allocations: kept blocks join the live set, released ones leave no trace -/
theorem runInner_live {E} (hE : EnvOK E) : ∀ (inner : List Inner) (s : St) (live : List Block) (acc : List Nat),
    LiveInv E ⟨s, live⟩ → (∀ i ∈ inner, InnerValid i) →
    (∀ w, (runInner E inner s acc).2 ≠ .bad w) ∧ (runInner E inner s acc).2 ≠ .err ∧
    (runInner E inner s acc).2 ≠ .panic ∧
    (∀ ps, (runInner E inner s acc).2 = .ok ps → ∃ ps', ps = acc ++ ps' ∧
      LiveInv E ⟨(runInner E inner s acc).1, live ++ keptBlocks inner ps'⟩ ∧
      Persist s.a (runInner E inner s acc).1.a) := by
  intro inner
  induction inner with
  | nil =>
    intro s live acc inv _
    simp only [runInner]
    refine ⟨(by intro w; simp), (by simp), (by simp), ?_⟩
    intro ps hps
    simp only [Outcome.ok.injEq] at hps
    exact ⟨[], by simp [hps], by simpa [keptBlocks] using inv, Persist.refl _⟩
  | cons i rest ih =>
    intro s live acc inv hval
    have hvi := hval i List.mem_cons_self
    have hvr : ∀ j ∈ rest, InnerValid j := fun j hj => hval j (List.mem_cons_of_mem _ hj)
    cases i with
    | keep sz al =>
      obtain ⟨hA, hlay⟩ := hvi
      obtain ⟨sp, hnp⟩ := tryAllocLayout_spec (sz := sz) (al := al) s hE inv.wf hA hlay
      simp only [runInner, tryAllocOr0]
      cases hr : tryAllocLayout E sz al s with
      | mk s1 o1 =>
        rw [hr] at sp hnp
        simp only at sp hnp
        cases o1 with
        | ok p =>
          simp only [bindO]
          have inv1 := allocPost_live hE inv sp rfl
          obtain ⟨_, _, _, hpos, _, _⟩ := sp.ok p rfl
          obtain ⟨b1, b2, b3, b4⟩ := ih s1 (live ++ [⟨p, sz⟩]) (acc ++ [p]) inv1 hvr
          refine ⟨b1, b2, b3, ?_⟩
          intro ps hps
          obtain ⟨ps', hpe, hl, hpers⟩ := b4 ps hps
          have hps1 : Persist s.a s1.a := (sp.ok p rfl).2.2.2.2.1.persist sp.m_eq
          refine ⟨p :: ps', by rw [hpe]; simp, ?_, hps1.trans hpers⟩
          have hp0 : p ≠ 0 := by omega
          simpa [keptBlocks, hp0, List.append_assoc] using hl
        | err =>
          simp only [bindO]
          have inv1 : LiveInv E ⟨s1, live⟩ := allocPost_fail_live inv sp (Or.inl rfl)
          obtain ⟨b1, b2, b3, b4⟩ := ih s1 live (acc ++ [0]) inv1 hvr
          refine ⟨b1, b2, b3, ?_⟩
          intro ps hps
          obtain ⟨ps', hpe, hl, hpers⟩ := b4 ps hps
          exact ⟨0 :: ps', by rw [hpe]; simp, by simpa [keptBlocks] using hl,
            (Persist.of_eq (sp.fail (Or.inl rfl)).1).trans hpers⟩
        | panic => exact absurd rfl hnp
        | bad w => exact absurd rfl (sp.nobad w)
        | envBad =>
          simp only [bindO]
          exact ⟨(by intro w; simp), (by simp), (by simp), (by intro ps hps; cases hps)⟩
    | release sz al =>
      obtain ⟨hA, hlay⟩ := hvi
      obtain ⟨sp, hnp⟩ := tryAllocLayout_spec (sz := sz) (al := al) s hE inv.wf hA hlay
      simp only [runInner, tryAllocOr0]
      cases hr : tryAllocLayout E sz al s with
      | mk s1 o1 =>
        rw [hr] at sp hnp
        simp only at sp hnp
        cases o1 with
        | ok p =>
          simp only [bindO]
          obtain ⟨_, _, _, hpos, _, _⟩ := sp.ok p rfl
          have hp0 : p ≠ 0 := by omega
          simp only [hp0, ↓reduceIte]
          obtain ⟨hd1, inv2⟩ := alloc_dealloc_live hE inv hA sp rfl
          cases hdd : dealloc E p sz s1 with
          | mk s2 o2 =>
            rw [hdd] at hd1 inv2
            simp only at hd1 inv2
            subst hd1
            simp only [bindO]
            obtain ⟨b1, b2, b3, b4⟩ := ih s2 live (acc ++ [p]) inv2 hvr
            refine ⟨b1, b2, b3, ?_⟩
            intro ps hps
            obtain ⟨ps', hpe, hl, hpers⟩ := b4 ps hps
            have hps1 : Persist s.a s1.a := (sp.ok p rfl).2.2.2.2.1.persist sp.m_eq
            have inv1 := allocPost_live hE inv sp rfl
            have hbk := blockOK_of_inv (inv1.blocks ⟨p, sz⟩ (by simp)) hA (sp.ok p rfl).2.1
            have hps2 : Persist s1.a s2.a := by
              have := dealloc_persist (E := E) (p := p) (sz := sz) s1 hE inv1.wf (cur_block hE inv1.wf hbk)
              rw [hdd] at this; exact this
            exact ⟨p :: ps', by rw [hpe]; simp, by simpa [keptBlocks] using hl, (hps1.trans hps2).trans hpers⟩
        | err =>
          simp only [bindO, ↓reduceIte]
          have inv1 : LiveInv E ⟨s1, live⟩ := allocPost_fail_live inv sp (Or.inl rfl)
          obtain ⟨b1, b2, b3, b4⟩ := ih s1 live (acc ++ [0]) inv1 hvr
          refine ⟨b1, b2, b3, ?_⟩
          intro ps hps
          obtain ⟨ps', hpe, hl, hpers⟩ := b4 ps hps
          exact ⟨0 :: ps', by rw [hpe]; simp, by simpa [keptBlocks] using hl,
            (Persist.of_eq (sp.fail (Or.inl rfl)).1).trans hpers⟩
        | panic => exact absurd rfl hnp
        | bad w => exact absurd rfl (sp.nobad w)
        | envBad =>
          simp only [bindO]
          exact ⟨(by intro w; simp), (by simp), (by simp), (by intro ps hps; cases hps)⟩

end Bump

namespace Bump
open Gen

/-- when the reservation does not succeed, `alloc_try_with` stops there -/
theorem atw_not_ok {E sz al} (ok : Bool) (inner : List Inner) (f : Bool) (s : St) :
    (allocTryWith E sz al ok inner f s).1 = (allocMaybe E f sz al s).1 ∨ ∃ p, (allocMaybe E f sz al s).2 = .ok p := by
  cases hm : (allocMaybe E f sz al s).2 with
  | ok p => exact Or.inr ⟨p, rfl⟩
  | _ =>
    left
    unfold allocTryWith
    cases hr : allocMaybe E f sz al s with
    | mk s1 o1 =>
      rw [hr] at hm
      simp only at hm
      subst hm
      simp [bindO]

theorem atw_not_ok_res {E sz al} (ok : Bool) (inner : List Inner) (f : Bool) (s : St) :
    ((allocMaybe E f sz al s).2 = .err → (allocTryWith E sz al ok inner f s).2 = .err) ∧
    ((allocMaybe E f sz al s).2 = .panic → (allocTryWith E sz al ok inner f s).2 = .panic) ∧
    ((allocMaybe E f sz al s).2 = .envBad → (allocTryWith E sz al ok inner f s).2 = .envBad) := by
  unfold allocTryWith
  cases hr : allocMaybe E f sz al s with
  | mk s1 o1 =>
    refine ⟨?_, ?_, ?_⟩ <;> intro h <;> simp only at h <;> subst h <;> simp [bindO, Res.ofOutcome]

theorem limit_wf {E a} (v : Option Nat) (h : ArenaWF E a) : ArenaWF E { a with limit := v } :=
  ⟨h.mpow, h.mle, h.chunks, h.ab, h.disj, h.sdisj, h.total⟩

/-- **One step.** From a state satisfying the live-block invariant, any valid operation either
reports an allocator-contract violation (`envBad`) or yields a state satisfying it again, and
never an assertion failure / wrap / UB (`bad`). -/
theorem sysStep_live {E} (hE : EnvOK E) (y : Sys) (op : Op) (inv : LiveInv E y) (hv : OpValid y op) :
    (∀ w, (sysStep E op y).2 ≠ .bad w) ∧ ((sysStep E op y).2 ≠ .envBad → LiveInv E (sysStep E op y).1) := by
  obtain ⟨s, live⟩ := y
  cases op with
  | alloc sz al f =>
    obtain ⟨hA, hlay⟩ := hv
    have sp := allocMaybe_spec f s hE inv.wf hA hlay
    simp only [sysStep, step]
    cases ho : (allocMaybe E f sz al s).2 with
    | ok p => exact ⟨(by intro w; simp [Res.ofOutcome]), fun _ => by simpa [liveAfter, Res.ofOutcome] using allocPost_live hE inv sp ho⟩
    | err => exact ⟨(by intro w; simp [Res.ofOutcome]), fun _ => by simpa [liveAfter, Res.ofOutcome] using allocPost_fail_live inv sp (Or.inl ho)⟩
    | panic => exact ⟨(by intro w; simp [Res.ofOutcome]), fun _ => by simpa [liveAfter, Res.ofOutcome] using allocPost_fail_live inv sp (Or.inr ho)⟩
    | bad w => exact absurd ho (sp.nobad w)
    | envBad => exact ⟨(by intro w; simp [Res.ofOutcome]), fun h => absurd (by simp [Res.ofOutcome]) h⟩
  | array esz eal n f =>
    obtain ⟨hA, heal⟩ := hv
    simp only [sysStep, step]
    cases hl : arrayLayout esz eal n with
    | none =>
      simp only
      cases f <;> exact ⟨(by intro w; simp), fun _ => by simpa [liveAfter] using inv⟩
    | some total =>
      obtain ⟨ht, hlay⟩ := arrayLayout_some heal hl
      subst ht
      have sp := allocMaybe_spec f s hE inv.wf hA hlay
      simp only
      cases ho : (allocMaybe E f (esz * n) eal s).2 with
      | ok p => exact ⟨(by intro w; simp [Res.ofOutcome]), fun _ => by simpa [liveAfter, Res.ofOutcome] using allocPost_live hE inv sp ho⟩
      | err => exact ⟨(by intro w; simp [Res.ofOutcome]), fun _ => by simpa [liveAfter, Res.ofOutcome] using allocPost_fail_live inv sp (Or.inl ho)⟩
      | panic => exact ⟨(by intro w; simp [Res.ofOutcome]), fun _ => by simpa [liveAfter, Res.ofOutcome] using allocPost_fail_live inv sp (Or.inr ho)⟩
      | bad w => exact absurd ho (sp.nobad w)
      | envBad => exact ⟨(by intro w; simp [Res.ofOutcome]), fun h => absurd (by simp [Res.ofOutcome]) h⟩
  | aalloc sz al =>
    obtain ⟨hA, hlay⟩ := hv
    obtain ⟨sp, _⟩ := tryAllocLayout_spec (sz := sz) (al := al) s hE inv.wf hA hlay
    simp only [sysStep, step]
    cases ho : (tryAllocLayout E sz al s).2 with
    | ok p => exact ⟨(by intro w; simp [Res.ofOutcome]), fun _ => by simpa [liveAfter, Res.ofOutcome] using allocPost_live hE inv sp ho⟩
    | err => exact ⟨(by intro w; simp [Res.ofOutcome]), fun _ => by simpa [liveAfter, Res.ofOutcome] using allocPost_fail_live inv sp (Or.inl ho)⟩
    | panic => exact ⟨(by intro w; simp [Res.ofOutcome]), fun _ => by simpa [liveAfter, Res.ofOutcome] using allocPost_fail_live inv sp (Or.inr ho)⟩
    | bad w => exact absurd ho (sp.nobad w)
    | envBad => exact ⟨(by intro w; simp [Res.ofOutcome]), fun h => absurd (by simp [Res.ofOutcome]) h⟩
  | afree p sz al =>
    obtain ⟨hmem, hA, hd⟩ := hv
    obtain ⟨h1, h2⟩ := dealloc_live (al := al) hE inv hmem hA hd
    simp only [sysStep, step]
    rw [h1]
    exact ⟨(by intro w; simp [Res.ofOutcome]), fun _ => by simpa [liveAfter, Res.ofOutcome] using h2⟩
  | agrow p osz oal nsz nal z =>
    obtain ⟨hmem, hO, hd, hN, hle, hlay⟩ := hv
    have hb := blockOK_of_inv (inv.blocks _ hmem) hO hd
    have post := grow_spec s hE inv.wf hb hN hle hlay
    simp only [sysStep, step]
    cases hg : grow E p osz oal nsz nal s with
    | mk s1 o1 =>
      rw [hg] at post
      simp only at post
      cases o1 with
      | ok q =>
        have hl := realloc_live hE inv hmem post (post.hi q rfl)
        simp only [bindO, Res.ofOutcome, liveAfter]
        refine ⟨(by intro w; simp), fun _ => ?_⟩
        cases z
        · simpa using hl
        · exact live_same_arena (s := s1) hl rfl
      | err =>
        simp only [bindO, Res.ofOutcome, liveAfter]
        exact ⟨(by intro w; simp), fun _ => live_same_arena inv (post.err rfl).1⟩
      | panic => exact absurd rfl post.nopanic
      | bad w => exact absurd rfl (post.nobad w)
      | envBad =>
        simp only [bindO, Res.ofOutcome]
        exact ⟨(by intro w; simp), fun h => absurd rfl h⟩
  | ashrink p osz oal nsz nal =>
    obtain ⟨hmem, hO, hd, hN, hle, hlay⟩ := hv
    have hb := blockOK_of_inv (inv.blocks _ hmem) hO hd
    have post := shrink_spec s hE inv.wf hb hN hle hlay
    simp only [sysStep, step]
    cases hg : shrink E p osz oal nsz nal s with
    | mk s1 o1 =>
      rw [hg] at post
      simp only at post
      cases o1 with
      | ok q =>
        have hl := realloc_live hE inv hmem post (post.hi q rfl)
        simp only [Res.ofOutcome, liveAfter]
        exact ⟨(by intro w; simp), fun _ => hl⟩
      | err =>
        simp only [Res.ofOutcome, liveAfter]
        exact ⟨(by intro w; simp), fun _ => live_same_arena inv (post.err rfl).1⟩
      | panic => exact absurd rfl post.nopanic
      | bad w => exact absurd rfl (post.nobad w)
      | envBad =>
        simp only [Res.ofOutcome]
        exact ⟨(by intro w; simp), fun h => absurd rfl h⟩
  | reset =>
    obtain ⟨_, h2, h3, _⟩ := reset_spec s inv.wf
    simp only [sysStep, step]
    rw [h2]
    simp only [Res.ofOutcome, liveAfter]
    exact ⟨(by intro w; simp), fun _ => ⟨h3, (by intro b hb; cases hb), List.Pairwise.nil⟩⟩
  | limit v =>
    simp only [sysStep, step, liveAfter]
    refine ⟨(by intro w; simp), fun _ => ⟨limit_wf v inv.wf, ?_, inv.disj⟩⟩
    intro b hb
    exact (inv.blocks b hb).mono rfl (fun _ _ hx => hx)
  | tfill esz eal n errat =>
    obtain ⟨hA, heal⟩ := hv
    simp only [sysStep, step, sliceTryFill]
    cases hl : arrayLayout esz eal n with
    | none => exact ⟨(by intro w; simp), fun _ => by simpa [liveAfter] using inv⟩
    | some total =>
      obtain ⟨ht, hlay⟩ := arrayLayout_some heal hl
      subst ht
      have sp := allocLayout_spec (sz := esz * n) (al := eal) s hE inv.wf hA hlay
      simp only
      cases hr : allocLayout E (esz * n) eal s with
      | mk s1 o1 =>
        rw [hr] at sp
        simp only at sp
        cases o1 with
        | ok p =>
          simp only [bindO]
          cases errat with
          | none =>
            simp only [Res.ofOutcome, id, liveAfter]
            exact ⟨(by intro w; simp), fun _ => allocPost_live hE inv sp rfl⟩
          | some i =>
            simp only
            by_cases hi : i < n
            · simp only [hi, ↓reduceIte]
              obtain ⟨hd1, inv2⟩ := alloc_dealloc_live hE inv hA sp rfl
              cases hdd : dealloc E p (esz * n) s1 with
              | mk s2 o2 =>
                rw [hdd] at hd1 inv2
                simp only at hd1 inv2
                subst hd1
                simp only [bindO, Res.ofOutcome, id, liveAfter, keptBlocks, List.append_nil]
                exact ⟨(by intro w; simp), fun _ => inv2⟩
            · simp only [hi, ↓reduceIte, Res.ofOutcome, id, liveAfter]
              exact ⟨(by intro w; simp), fun _ => allocPost_live hE inv sp rfl⟩
        | err =>
          simp only [bindO, Res.ofOutcome, liveAfter]
          exact ⟨(by intro w; simp), fun _ => allocPost_fail_live inv sp (Or.inl rfl)⟩
        | panic =>
          simp only [bindO, Res.ofOutcome, liveAfter]
          exact ⟨(by intro w; simp), fun _ => allocPost_fail_live inv sp (Or.inr rfl)⟩
        | bad w => exact absurd rfl (sp.nobad w)
        | envBad =>
          simp only [bindO, Res.ofOutcome]
          exact ⟨(by intro w; simp), fun h => absurd rfl h⟩
  | atw sz al ok inner f =>
    obtain ⟨hA, hlay, hin, hok⟩ := hv
    have sp := allocMaybe_spec f s hE inv.wf hA hlay
    simp only [sysStep, step]
    cases hok' : ok with
    | true =>
      unfold allocTryWith
      cases hm : allocMaybe E f sz al s with
      | mk s1 o1 =>
        rw [hm] at sp
        simp only at sp
        cases o1 with
        | ok slot =>
          have inv1 := allocPost_live hE inv sp rfl
          obtain ⟨b1, b2, b3, b4⟩ := runInner_live hE inner s1 (live ++ [⟨slot, sz⟩]) [] inv1
            (fun i hi => by have := hin i hi; cases i <;> exact this)
          simp only [bindO]
          cases hri : runInner E inner s1 [] with
          | mk s2 o2 =>
            rw [hri] at b1 b2 b3 b4
            simp only at b1 b2 b3 b4
            cases o2 with
            | ok ps =>
              obtain ⟨ps', hpe, hl, _⟩ := b4 ps rfl
              simp only [List.nil_append] at hpe
              subst hpe
              simp only [↓reduceIte, Res.ofOutcome, id, liveAfter]
              exact ⟨(by intro w; simp), fun _ => hl⟩
            | err => exact absurd rfl b2
            | panic => exact absurd rfl b3
            | bad w => exact absurd rfl (b1 w)
            | envBad =>
              simp only [Res.ofOutcome]
              exact ⟨(by intro w; simp), fun h => absurd rfl h⟩
        | err =>
          simp only [bindO, Res.ofOutcome, liveAfter]
          exact ⟨(by intro w; simp), fun _ => allocPost_fail_live inv sp (Or.inl rfl)⟩
        | panic =>
          simp only [bindO, Res.ofOutcome, liveAfter]
          exact ⟨(by intro w; simp), fun _ => allocPost_fail_live inv sp (Or.inr rfl)⟩
        | bad w => exact absurd rfl (sp.nobad w)
        | envBad =>
          simp only [bindO, Res.ofOutcome]
          exact ⟨(by intro w; simp), fun h => absurd rfl h⟩
    | false =>
      have hin0 : inner = [] := by
        rcases hok with h | h
        · rw [hok'] at h; cases h
        · exact h
      subst hin0
      cases ho : (allocMaybe E f sz al s).2 with
      | ok slot =>
        obtain ⟨r1, r2, _, _, r5, _⟩ := atw_err_no_residue f s hE inv.wf hA hlay slot ho
        rw [r1]
        simp only [liveAfter, keptBlocks, List.append_nil]
        refine ⟨(by intro w; simp), fun _ => ⟨r2, ?_, inv.disj⟩⟩
        intro b hb
        have hbi := inv.blocks b hb
        rcases r5 with ha | ⟨c, _, ha⟩
        · show BlockInv (allocTryWith E sz al false [] f s).1.a b
          rw [ha]; exact hbi
        · show BlockInv (allocTryWith E sz al false [] f s).1.a b
          rw [ha]
          exact hbi.mono rfl (fun x xn ⟨d, hd, h1, h2⟩ => ⟨d, List.mem_cons_of_mem _ hd, h1, h2⟩)
      | err =>
        obtain ⟨e1, _, _⟩ := atw_not_ok_res (E := E) (sz := sz) (al := al) false [] f s
        rw [e1 ho]
        simp only [liveAfter]
        refine ⟨(by intro w; simp), fun _ => ?_⟩
        rcases atw_not_ok (E := E) (sz := sz) (al := al) false [] f s with he | ⟨p, hp⟩
        · rw [he]; exact allocPost_fail_live inv sp (Or.inl ho)
        · rw [ho] at hp; cases hp
      | panic =>
        obtain ⟨_, e2, _⟩ := atw_not_ok_res (E := E) (sz := sz) (al := al) false [] f s
        rw [e2 ho]
        simp only [liveAfter]
        refine ⟨(by intro w; simp), fun _ => ?_⟩
        rcases atw_not_ok (E := E) (sz := sz) (al := al) false [] f s with he | ⟨p, hp⟩
        · rw [he]; exact allocPost_fail_live inv sp (Or.inr ho)
        · rw [ho] at hp; cases hp
      | bad w => exact absurd ho (sp.nobad w)
      | envBad =>
        obtain ⟨_, _, e3⟩ := atw_not_ok_res (E := E) (sz := sz) (al := al) false [] f s
        rw [e3 ho]
        exact ⟨(by intro w; simp), fun h => absurd rfl h⟩

end Bump

namespace Bump
open Gen

/-- a history is admissible from `y`: every operation meets its caller obligations in the state
it is applied to, and the allocator keeps its contract -/
def RunOK (E : Nat) : List Op → Sys → Prop
  | [], _ => True
  | op :: ops, y => OpValid y op ∧ (sysStep E op y).2 ≠ .envBad ∧ RunOK E ops (sysStep E op y).1

/-- **All histories.** The live-block invariant holds after every admissible history, and no
step of it ever produces an assertion failure, a wrap-around or undefined behaviour. -/
theorem sysRun_live {E} (hE : EnvOK E) : ∀ (ops : List Op) (y : Sys), LiveInv E y → RunOK E ops y →
    LiveInv E (sysRun E ops y).1 ∧ ∀ r ∈ (sysRun E ops y).2, ∀ w, r ≠ .bad w := by
  intro ops
  induction ops with
  | nil => intro y inv _; exact ⟨inv, by intro r hr; cases hr⟩
  | cons op ops ih =>
    intro y inv hrun
    obtain ⟨hv, hne, hrest⟩ := hrun
    obtain ⟨h1, h2⟩ := sysStep_live hE y op inv hv
    obtain ⟨i1, i2⟩ := ih (sysStep E op y).1 (h2 hne) hrest
    refine ⟨i1, ?_⟩
    intro r hr
    simp only [sysRun, List.mem_cons] at hr
    rcases hr with rfl | hr
    · exact h1
    · exact i2 r hr

/-- a freshly constructed arena with no live blocks satisfies the invariant -/
theorem init_live {E a} (s : St) (h : ArenaWF E a) (hs : s.a = a) : LiveInv E ⟨s, []⟩ :=
  ⟨(by show ArenaWF E s.a; rw [hs]; exact h), (by intro b hb; cases hb), List.Pairwise.nil⟩

end Bump
