import BumpVerif.Model.Sys
import BumpVerif.Proofs.Init
/-! The live-block invariant over whole operation histories (C01's main theorem). -/
namespace Bump
open Gen

def BlockInv (a : Arena) (b : Block) : Prop :=
  a.M ∣ b.ptr ∧ 0 < b.ptr ∧ b.ptr + b.size < 2 ^ 63 ∧ (b.size = 0 ∨ InChunk a b.ptr b.size)

def NoOverlap (b c : Block) : Prop := b.size = 0 ∨ c.size = 0 ∨ Disj b.ptr b.size c.ptr c.size

theorem NoOverlap.symm {b c} (h : NoOverlap b c) : NoOverlap c b := by
  unfold NoOverlap Disj at *; omega

structure LiveInv (E : Nat) (y : Sys) : Prop where
  wf : ArenaWF E y.st.a
  blocks : ∀ b ∈ y.live, BlockInv y.st.a b
  disj : y.live.Pairwise NoOverlap

/-- caller obligations (the `unsafe` parts of the API) and layout validity -/
def OpValid (y : Sys) : Op → Prop
  | .alloc sz al _ => IsPow2 al ∧ sz + al ≤ 2 ^ 63
  | .array _ eal _ _ => IsPow2 eal ∧ eal ≤ 2 ^ 63
  | .atw sz al ok inner _ => IsPow2 al ∧ sz + al ≤ 2 ^ 63 ∧
      (∀ i ∈ inner, match i with | .keep s a => IsPow2 a ∧ s + a ≤ 2 ^ 63 | .release s a => IsPow2 a ∧ s + a ≤ 2 ^ 63) ∧
      (ok = true ∨ inner = [])
  | .tfill _ eal _ _ => IsPow2 eal ∧ eal ≤ 2 ^ 63
  | .aalloc sz al => IsPow2 al ∧ sz + al ≤ 2 ^ 63
  | .afree p sz al => ⟨p, sz⟩ ∈ y.live ∧ IsPow2 al ∧ al ∣ p
  | .agrow p osz oal nsz nal _ => ⟨p, osz⟩ ∈ y.live ∧ IsPow2 oal ∧ oal ∣ p ∧ IsPow2 nal ∧ osz ≤ nsz ∧ nsz + nal ≤ 2 ^ 63
  | .ashrink p osz oal nsz nal => ⟨p, osz⟩ ∈ y.live ∧ IsPow2 oal ∧ oal ∣ p ∧ IsPow2 nal ∧ nsz ≤ osz ∧ nsz + nal ≤ 2 ^ 63
  | .reset => True
  | .limit _ => True

theorem BlockInv.mono {a a' : Arena} {b : Block} (h : BlockInv a b) (hm : a'.M = a.M)
    (hin : ∀ x xn, InChunk a x xn → InChunk a' x xn) : BlockInv a' b := by
  obtain ⟨h1, h2, h3, h4⟩ := h
  refine ⟨by rw [hm]; exact h1, h2, h3, ?_⟩
  rcases h4 with h0 | hi
  · exact Or.inl h0
  · exact Or.inr (hin _ _ hi)

/-- the block of a successful allocation ends below `2^63` -/
theorem AllocShape.hi {E a a' p sz} (hE : EnvOK E) (hwf : ArenaWF E a) (hwf' : ArenaWF E a') (sh : AllocShape E a a' p sz) :
    p + sz < 2 ^ 63 := by
  have := FS
  rcases sh with ⟨_, _, hp, hsz⟩ | ⟨c, cs, hc, _, _, hle⟩ | ⟨c, hc', _, hle, _⟩
  · have := hE.hi; omega
  · have hw := hwf.chunks c (by rw [hc]; exact List.mem_cons_self)
    have := hw.ptr_le; have := footer_lt hw; have := hw.hi; omega
  · have hw := hwf'.chunks { c with ptr := p } (by rw [hc']; exact List.mem_cons_self)
    have hf := footer_lt hw; have := hw.hi
    have : ({ c with ptr := p } : Chunk).footer = c.footer := rfl
    omega

/-- adding the block of a successful allocation keeps the invariant -/
theorem alloc_live {E sz p} {s s' : St} {live : List Block} (hE : EnvOK E) (inv : LiveInv E ⟨s, live⟩)
    (hwf' : ArenaWF E s'.a) (hm : s'.a.M = s.a.M) (hal : s.a.M ∣ p) (hpos : 0 < p)
    (sh : AllocShape E s.a s'.a p sz) :
    LiveInv E ⟨s', live ++ [⟨p, sz⟩]⟩ := by
  obtain ⟨f1, f2⟩ := sh.frame inv.wf hwf'
  have hhi := sh.hi hE inv.wf hwf'
  refine ⟨hwf', ?_, ?_⟩
  · intro b hb
    simp only [List.mem_append, List.mem_singleton] at hb
    rcases hb with hb | rfl
    · exact (inv.blocks b hb).mono hm (fun x xn hx => (f1 x xn hx).1)
    · refine ⟨by rw [hm]; exact hal, hpos, hhi, ?_⟩
      by_cases hz : sz = 0
      · exact Or.inl hz
      · exact Or.inr (f2 (by omega))
  · rw [List.pairwise_append]
    refine ⟨inv.disj, List.pairwise_singleton _ _, ?_⟩
    intro b hb c hc
    simp only [List.mem_singleton] at hc
    subst hc
    obtain ⟨_, _, _, h4⟩ := inv.blocks b hb
    unfold NoOverlap
    rcases h4 with h0 | hi
    · exact Or.inl h0
    · have := (f1 _ _ hi).2
      right; right; show Disj b.ptr b.size p sz; unfold Disj at *; omega

end Bump
