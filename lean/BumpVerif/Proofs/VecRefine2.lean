import BumpVerif.Proofs.VecResize
/-!
# Refinement to `List` of the remaining `Vec` methods (C13)

`extend` / `from_iter_in` / `collect_in` (caller's iterator), `extend_from_slice` / `clone`
(cloning iterator), `resize` / `extend_with`, `extend_from_slice_copy` / `extend_from_slices_copy` /
`io::Write`, `dedup_by` (and `dedup`, `dedup_by_key`), `shrink_to_fit`, `into_boxed_slice`, `vec!`.

`GrowOK c N`: the arena serves every buffer of up to `2·N` elements — a sufficient condition for
"no reservation of a total of at most `N` elements is refused" (`rawReserve_grow`), used to state
when a method does *not* panic.
-/
namespace Bump.V
open Bump

/-! ## reservations on a raw buffer (the slots beyond `len` matter: `Drain::move_tail`) -/

/-- machine invariants of the buffer fields -/
structure BufOK (c : Cfg) (v : VS) : Prop where
  buf : c.esz ≠ 0 → v.slots.length = v.cap
  capLt : v.cap < USIZE
  capHalf : c.esz ≠ 0 → v.cap * 2 < USIZE

theorem RepB.bufOK {c v xs} (h : RepB c v xs) : BufOK c v := ⟨h.buf, h.capLt, h.capHalf⟩

/-- the arena serves every request for up to `2·N` elements and `N` fits a `usize` -/
def GrowOK (c : Cfg) (N : Nat) : Prop := c.allocOk = true ∧ c.esz * (2 * N) ≤ c.allocLimit ∧ N ≤ USIZE_MAX

theorem resizeSlots_self (s : List (Option Elem)) : resizeSlots s s.length = s := by
  simp [resizeSlots]

/-- what a successful `RawVec::reserve(used, extra)` does to the whole buffer -/
theorem rawReserve_buf {c : Cfg} {v v' : VS} {used extra : Nat} (hc : CfgOK c) (hb : BufOK c v) (hu : used ≤ capOf c v)
    (hr : rawReserve c v used extra = some v') :
    BufOK c v' ∧ v'.len = v.len ∧ used + extra ≤ capOf c v' ∧ (c.esz = 0 → v' = v) ∧
      (c.esz ≠ 0 → v'.slots = resizeSlots v.slots v'.cap ∧ v.cap ≤ v'.cap) := by
  unfold rawReserve at hr
  split at hr
  · rename_i vv heq
    cases hr
    unfold reserveGen at heq
    have hcl := capOf_lt c v hb.capLt
    rw [wsub_of_le hu hcl] at heq
    split at heq
    · cases heq
      refine ⟨hb, rfl, by omega, fun _ => rfl, fun he => ⟨?_, Nat.le_refl _⟩⟩
      rw [← hb.buf he, resizeSlots_self]
    · rename_i hslow
      by_cases he : c.esz = 0
      · exfalso
        have hcap : capOf c v = USIZE_MAX := by simp [capOf, he]
        have hov : ¬ used + extra < USIZE := by simp only [USIZE_MAX, USIZE] at *; omega
        unfold reserveInternal at heq
        simp [amortizedNewCap, checkedAdd, hov] at heq
      · obtain ⟨hsum, hlen, hslots, hhalf, hcap⟩ := reserveInternal_ok hc (hb.capHalf he) he heq
        have hcapv : capOf c v = v.cap := by simp [capOf, he]
        have hcapv' : capOf c v' = v'.cap := by simp [capOf, he]
        simp only [Bool.false_eq_true, ↓reduceIte] at hcap
        refine ⟨⟨fun _ => by rw [hslots, length_resizeSlots], by simp only [USIZE] at *; omega, fun _ => hhalf⟩, hlen, ?_,
          fun h0 => absurd h0 he, fun _ => ⟨hslots, by omega⟩⟩
        rw [hcapv']; omega
  · cases hr

/-- no reservation of at most `N` elements in total is refused under `GrowOK c N` -/
theorem rawReserve_grow {c : Cfg} {v : VS} {used extra N : Nat} (hc : CfgOK c) (hg : GrowOK c N) (hb : BufOK c v)
    (hu : used ≤ capOf c v) (hN : used + extra ≤ N) : rawReserve c v used extra ≠ none := by
  obtain ⟨hal, hsz, hNu⟩ := hg
  unfold rawReserve reserveGen
  have hcl := capOf_lt c v hb.capLt
  rw [wsub_of_le hu hcl]
  by_cases hfast : capOf c v - used ≥ extra
  · simp [hfast]
  · rw [if_neg hfast]
    by_cases he : c.esz = 0
    · exfalso
      have hcap : capOf c v = USIZE_MAX := by simp [capOf, he]
      omega
    · have hcapv : capOf c v = v.cap := by simp [capOf, he]
      have hhalf := hb.capHalf he
      have hU : USIZE = 2 ^ 64 := rfl
      unfold CfgOK at hc
      have hN62 : 2 * N < 2 ^ 63 := by
        have : 1 * (2 * N) ≤ c.esz * (2 * N) := Nat.mul_le_mul_right _ (by omega)
        omega
      have hsum : used + extra < USIZE := by omega
      have hnc : max (v.cap * 2) (used + extra) ≤ 2 * N := by omega
      have hbytes : c.esz * max (v.cap * 2) (used + extra) ≤ c.allocLimit :=
        Nat.le_trans (Nat.mul_le_mul_left _ hnc) hsz
      have hbl : c.esz * max (v.cap * 2) (used + extra) < USIZE := by omega
      have hnb : ¬ c.allocLimit < c.esz * max (v.cap * 2) (used + extra) := by omega
      have hla : ¬ (c.esz ≠ 0 ∧ max (v.cap * 2) (used + extra) > (2 ^ 63 - c.eal) / c.esz) := by
        intro ⟨_, hgt⟩
        have h1 : c.esz * max (v.cap * 2) (used + extra) ≤ 2 ^ 63 - c.eal := by omega
        have h2 : max (v.cap * 2) (used + extra) ≤ (2 ^ 63 - c.eal) / c.esz :=
          (Nat.le_div_iff_mul_le (by omega)).mpr (by rw [Nat.mul_comm]; exact h1)
        omega
      simp [reserveInternal, amortizedNewCap, checkedAdd, arrayLayout, hsum, hhalf, hla, hal, hnb]

/-- dropping a vector emits exactly the `drop` events of its contents -/
theorem dropVec_own_evs {c : Cfg} {v : VS} {xs : List Elem} (h : RepB c v xs) (w : W) :
    (dropVec c v w).1.evs = w.evs ++ dropEvs c xs := by
  have hown : v.owned = xs := h.toRep.abs_eq
  rw [dropVec, hown, dropAll_evs]

/-! ## the caller's iterator: `extend`, `from_iter_in`, `collect_in` -/

theorem src_next_panic (c : Cfg) (w : W) (s : Src) (h : s.panicAt = some s.calls) :
    It.next c w (.src s) = (w, .src { s with calls := s.calls + 1, panicAt := none }, none) := by
  simp [It.next, h]

theorem src_next_nil (c : Cfg) (w : W) (s : Src) (h : ¬ s.panicAt = some s.calls) (hi : s.items = []) :
    It.next c w (.src s) = (w, .src { s with calls := s.calls + 1 }, some none) := by
  simp [It.next, h, hi]

theorem src_next_cons (c : Cfg) (w : W) (s : Src) (e : Elem) (r : List Elem) (h : ¬ s.panicAt = some s.calls)
    (hi : s.items = e :: r) :
    It.next c w (.src s) = (w, .src { s with items := r, consumed := s.consumed + 1, calls := s.calls + 1 }, some (some e)) := by
  simp [It.next, h, hi]

/-- the loop `for t in iter { self.push(t) }` over the caller's iterator: `j` items are appended in
order; the loop stops early only when the iterator panics or a `push` is refused (`m = 1`: that
item is dropped by the unwinding); with a well-behaved iterator and an arena that serves the
growth it consumes everything -/
theorem extendLoop_src_spec {c : Cfg} (hc : CfgOK c) (N : Nat) :
    ∀ (fuel : Nat) (v : VS) (s : Src) (w : W) (ys : List Elem), RepB c v ys → s.items.length < fuel →
      ∃ (j m : Nat) (v' : VS) (s' : Src) (w' : W) (ok : Bool),
        extendLoop c fuel v (.src s) w = (v', .src s', w', ok) ∧ RepB c v' (ys ++ s.items.take j) ∧
        j + m ≤ s.items.length ∧ s'.items = s.items.drop (j + m) ∧
        w'.evs = w.evs ++ dropEvs c ((s.items.drop j).take m) ∧ w'.bad = w.bad ∧ w'.nextId = w.nextId ∧
        (ok = true → j = s.items.length ∧ m = 0) ∧
        (s.panicAt = none → GrowOK c N → ys.length + s.items.length ≤ N → ok = true) := by
  intro fuel
  induction fuel with
  | zero => intro v s w ys _ hf; omega
  | succ f ih =>
    intro v s w ys hr hf
    by_cases hp : s.panicAt = some s.calls
    · refine ⟨0, 0, v, { s with calls := s.calls + 1, panicAt := none }, w, false, by simp [extendLoop, src_next_panic c w s hp], by simpa using hr, by omega, by simp,
        by simp [dropEvs], rfl, rfl, by simp, fun hn => by rw [hn] at hp; cases hp⟩
    · cases hit : s.items with
      | nil =>
        refine ⟨0, 0, v, { s with calls := s.calls + 1 }, w, true, by simp [extendLoop, src_next_nil c w s hp hit], by simpa using hr, by simp, by simp [hit],
          by simp [dropEvs], rfl, rfl, by simp, fun _ _ _ => rfl⟩
      | cons e r =>
        have hnext := src_next_cons c w s e r hp hit
        rcases push_spec hc hr e w with ⟨v1, hpush, hr1⟩ | ⟨hpush, hfull, hres⟩
        · let s1 : Src := { s with items := r, consumed := s.consumed + 1, calls := s.calls + 1 }
          obtain ⟨j, m, v', s', w', ok, hrun, hrep, hjm, hs', hev, hb, hn, hok, hgood⟩ :=
            ih v1 s1 w (ys ++ [e]) hr1 (by simp [s1]; rw [hit] at hf; simp at hf; omega)
          refine ⟨j + 1, m, v', s', w', ok, ?_, ?_, ?_, ?_, ?_, hb, hn, ?_, ?_⟩
          · simp only [extendLoop, hnext, hpush]; exact hrun
          · simpa [s1, List.append_assoc] using hrep
          · simp [s1] at hjm; simp; omega
          · rw [hs']; simp [s1, Nat.add_right_comm]
          · rw [hev]; simp [s1]
          · intro h; obtain ⟨h1, h2⟩ := hok h; simp [s1] at h1; simp [h1, h2]
          · intro hn' hg hN
            apply hgood (by simpa [s1] using hn') hg
            simp [s1] at hN ⊢; omega
        · refine ⟨0, 1, v, { s with items := r, consumed := s.consumed + 1, calls := s.calls + 1 }, (dropElem c w e).1, false,
            ?_, by simpa using hr, by simp, by simp, ?_, (dropElem_evs c w e).2.1, (dropElem_evs c w e).2.2, by simp, ?_⟩
          · simp only [extendLoop, hnext, hpush]
          · rw [dropElem_evs']; simp
          · intro _ hg hN
            exfalso
            have := hr.len
            exact rawReserve_grow hc hg hr.bufOK (by rw [hfull]; exact Nat.le_refl _) (by simp at hN; omega) hres

theorem dropAll_bad (c : Cfg) (es : List Elem) (w : W) : (dropAll c es w).1.bad = w.bad := by
  induction es generalizing w with
  | nil => rfl
  | cons e es ih =>
    simp only [dropAll]
    rw [ih]
    exact (dropElem_evs c w e).2.1

theorem dropAll_noPanic (c : Cfg) (es : List Elem) (w : W) (h : c.dropPanicAt = none) : (dropAll c es w).2 = false := by
  induction es generalizing w with
  | nil => rfl
  | cons e es ih =>
    simp only [dropAll]
    rw [ih, dropElem_noPanic c w e h]; rfl

/-- `Extend::extend(iter.by_ref())`: reserve the lower size hint (whatever it claims), then push -/
theorem extendRef_src_spec {c : Cfg} (hc : CfgOK c) (N : Nat) {v : VS} {ys : List Elem} (hr : RepB c v ys) (s : Src) (w : W) :
    ∃ (j m : Nat) (v' : VS) (s' : Src) (w' : W) (ok : Bool),
      extendRef c v (.src s) w = (v', .src s', w', ok) ∧ RepB c v' (ys ++ s.items.take j) ∧
      j + m ≤ s.items.length ∧ s'.items = s.items.drop (j + m) ∧
      w'.evs = w.evs ++ dropEvs c ((s.items.drop j).take m) ∧ w'.bad = w.bad ∧ w'.nextId = w.nextId ∧
      (ok = true → j = s.items.length ∧ m = 0) ∧
      (s.panicAt = none → GrowOK c N → ys.length + s.items.length ≤ N → ys.length + (s.hint - s.consumed) ≤ N → ok = true) := by
  rw [extendRef_unfold]
  cases hres : rawReserve c v v.len (It.src s).hintLo with
  | none =>
    refine ⟨0, 0, v, s, w, false, rfl, by simpa using hr, by omega, by simp, by simp [dropEvs], rfl, rfl, by simp, ?_⟩
    intro _ hg _ hN
    exfalso
    exact rawReserve_grow hc hg hr.bufOK hr.lenCap (by rw [hr.len]; exact hN) hres
  | some v1 =>
    obtain ⟨h1, _, _⟩ := rawReserve_some hc hr hres
    obtain ⟨j, m, v', s', w', ok, hrun, hrep, hjm, hs', hev, hb, hn, hok, hgood⟩ :=
      extendLoop_src_spec hc N ((It.src s).remaining + 1) v1 s w ys h1 (by simp [It.remaining])
    exact ⟨j, m, v', s', w', ok, hrun, hrep, hjm, hs', hev, hb, hn, hok, fun a b d _ => hgood a b d⟩

/-- `extend(iter)` with the caller's iterator: a prefix of the items is appended in order, the
others are dropped (in order) by the unwinding; everything is appended — and nothing dropped —
unless the iterator panics or the arena refuses the growth -/
theorem extend_src_spec {c : Cfg} (hc : CfgOK c) (N : Nat) {v : VS} {xs : List Elem} (h : RepB c v xs) (s : Src) (w : W) :
    ∃ (j : Nat) (v' : VS) (w' : W) (r : Option Unit), extend c v (.src s) w = (v', w', r) ∧ j ≤ s.items.length ∧
      RepB c v' (xs ++ s.items.take j) ∧ w'.evs = w.evs ++ dropEvs c (s.items.drop j) ∧ w'.bad = w.bad ∧ w'.nextId = w.nextId ∧
      (r = some () → j = s.items.length) ∧
      (s.panicAt = none → GrowOK c N → xs.length + s.items.length ≤ N → xs.length + (s.hint - s.consumed) ≤ N → r = some ()) := by
  obtain ⟨j, m, v', s', w', ok, hrun, hrep, hjm, hs', hev, hb, hn, hok, hgood⟩ := extendRef_src_spec hc N h s w
  refine ⟨j, v', (dropAll c s'.items w').1, if ok then some () else none, ?_, by omega, hrep, ?_, by rw [dropAll_bad, hb],
    by rw [dropAll_nextId, hn], ?_, ?_⟩
  · rw [extend_unfold, hrun]; rfl
  · rw [dropAll_evs, hev, hs', List.append_assoc, ← dropEvs_append, ← List.drop_drop, List.take_append_drop]
  · intro hr; cases ok with
    | true => exact (hok rfl).1
    | false => simp at hr
  · intro a b d e; rw [hgood a b d e]; rfl

/-- `Vec::from_iter_in` / `collect_in`: the items, in order; if the iterator panics (or the growth is
refused) the partly built vector is dropped together with the unconsumed items -/
theorem fromIter_spec {c : Cfg} (hc : CfgOK c) (N : Nat) (s : Src) (w : W) :
    ∃ (j : Nat) (r : Option VS) (w' : W), fromIter c (.src s) w = (r, w') ∧ j ≤ s.items.length ∧ w'.bad = w.bad ∧
      (∀ v', r = some v' → RepB c v' s.items ∧ w'.evs = w.evs) ∧
      (r = none → w'.evs = w.evs ++ dropEvs c (s.items.drop j) ++ dropEvs c (s.items.take j)) ∧
      (s.panicAt = none → GrowOK c N → s.items.length ≤ N → s.hint - s.consumed ≤ N → r ≠ none) := by
  obtain ⟨j, v', w', r, hrun, hj, hrep, hev, hb, _, hok, hgood⟩ := extend_src_spec hc N (newVec_rep c) s w
  unfold fromIter
  rw [hrun]
  cases r with
  | some u =>
    have hjl := hok rfl
    refine ⟨j, some v', w', rfl, hj, hb, ?_, by simp, fun _ _ _ _ => by simp⟩
    intro v'' hv; cases hv
    subst hjl
    exact ⟨by simpa using hrep, by simpa [dropEvs] using hev⟩
  | none =>
    refine ⟨j, none, (dropVec c v' w').1, rfl, hj, ?_, by simp, ?_, ?_⟩
    · rw [dropVec, dropAll_bad, hb]
    · intro _; rw [(dropVec_own_evs hrep w')]; rw [hev]; simp
    · intro a b d e; have := hgood a b (by simpa using d) (by simpa using e); cases this

/-! ## cloning iterators: `extend_from_slice`, `Clone::clone`, and the clones of `resize` / `vec!` -/

/-- what `Clone::clone` returns when the id counter stands at `n` -/
def cloneOne (c : Cfg) (n : Nat) (e : Elem) : Elem := if c.freshClone then ⟨n, e.val⟩ else e
def nextAfter (c : Cfg) (n : Nat) : Nat := if c.freshClone then n + 1 else n

/-- the clones of a list, made in order starting with id counter `n` -/
def clonesFrom (c : Cfg) : Nat → List Elem → List Elem
  | _, [] => []
  | n, e :: r => cloneOne c n e :: clonesFrom c (nextAfter c n) r

theorem clonesFrom_length (c : Cfg) (n : Nat) (src : List Elem) : (clonesFrom c n src).length = src.length := by
  induction src generalizing n with
  | nil => rfl
  | cons e r ih => simp [clonesFrom, ih]

/-- clones carry the values of their originals -/
theorem clonesFrom_vals (c : Cfg) (n : Nat) (src : List Elem) : (clonesFrom c n src).map (·.val) = src.map (·.val) := by
  induction src generalizing n with
  | nil => rfl
  | cons e r ih =>
    simp only [clonesFrom, List.map_cons, ih]
    congr 1
    unfold cloneOne; split <;> rfl

/-- `Clone::clone` panics (one-shot trigger), or returns the clone -/
theorem cloneElem_cases (c : Cfg) (w : W) (e : Elem) :
    (c.freshClone = true ∧ c.clonePanicAt = some w.cloneCalls ∧ cloneElem c w e = ({ w with cloneCalls := w.cloneCalls + 1 }, none)) ∨
    (∃ w1, cloneElem c w e = (w1, some (cloneOne c w.nextId e)) ∧ w1.evs = w.evs ∧ w1.bad = w.bad ∧ w1.nextId = nextAfter c w.nextId) := by
  by_cases hf : c.freshClone = true
  · by_cases hp : c.clonePanicAt = some w.cloneCalls
    · left; exact ⟨hf, hp, by simp [cloneElem, hf, hp]⟩
    · right
      refine ⟨{ w with cloneCalls := w.cloneCalls + 1, nextId := w.nextId + 1 }, ?_, rfl, rfl, by simp [nextAfter, hf]⟩
      simp [cloneElem, hf, hp, cloneOne]
  · right
    have hf' : c.freshClone = false := by simpa using hf
    exact ⟨w, by simp [cloneElem, hf', cloneOne], rfl, rfl, by simp [nextAfter, hf']⟩

/-- `Clone` does not panic during this call -/
def CloneOK (c : Cfg) : Prop := c.freshClone = true → c.clonePanicAt = none

/-- the push loop over `slice.iter().cloned()`: `j` clones are appended in order; the loop stops
early only when `Clone` panics or a `push` is refused (`m = 1`: that clone is dropped) -/
theorem extendLoop_cloned_spec {c : Cfg} (hc : CfgOK c) (N : Nat) :
    ∀ (fuel : Nat) (v : VS) (src : List Elem) (w : W) (ys : List Elem), RepB c v ys → src.length < fuel →
      ∃ (j m : Nat) (v' : VS) (r' : List Elem) (w' : W) (ok : Bool),
        extendLoop c fuel v (.cloned src) w = (v', .cloned r', w', ok) ∧
        RepB c v' (ys ++ (clonesFrom c w.nextId src).take j) ∧ j + m ≤ src.length ∧
        w'.evs = w.evs ++ dropEvs c (((clonesFrom c w.nextId src).drop j).take m) ∧ w'.bad = w.bad ∧ w.nextId ≤ w'.nextId ∧
        (ok = true → j = src.length ∧ m = 0) ∧ (CloneOK c → GrowOK c N → ys.length + src.length ≤ N → ok = true) := by
  intro fuel
  induction fuel with
  | zero => intro v src w ys _ hf; omega
  | succ f ih =>
    intro v src w ys hr hf
    cases src with
    | nil =>
      exact ⟨0, 0, v, [], w, true, by simp [extendLoop, It.next], by simpa using hr, by simp, by simp [dropEvs], rfl, Nat.le_refl _,
        by simp, fun _ _ _ => rfl⟩
    | cons e r =>
      rcases cloneElem_cases c w e with ⟨hfc, hpa, hcl⟩ | ⟨w1, hcl, hev1, hb1, hn1⟩
      · refine ⟨0, 0, v, r, { w with cloneCalls := w.cloneCalls + 1 }, false, by simp [extendLoop, It.next, hcl], by simpa using hr, by simp,
          by simp [dropEvs], rfl, Nat.le_refl _, by simp, fun hco => ?_⟩
        have := hco hfc; rw [this] at hpa; cases hpa
      · have hnext : It.next c w (.cloned (e :: r)) = (w1, .cloned r, some (some (cloneOne c w.nextId e))) := by
          simp [It.next, hcl]
        have hmono : w.nextId ≤ w1.nextId := by rw [hn1]; unfold nextAfter; split <;> omega
        rcases push_spec hc hr (cloneOne c w.nextId e) w1 with ⟨v1, hpush, hr1⟩ | ⟨hpush, hfull, hres⟩
        · obtain ⟨j, m, v', r', w', ok, hrun, hrep, hjm, hev, hb, hn, hok, hgood⟩ :=
            ih v1 r w1 (ys ++ [cloneOne c w.nextId e]) hr1 (by simp at hf; omega)
          refine ⟨j + 1, m, v', r', w', ok, ?_, ?_, by simp; omega, ?_, by rw [hb, hb1], by omega, ?_, ?_⟩
          · simp only [extendLoop, hnext, hpush]; exact hrun
          · rw [hn1] at hrep; simpa [clonesFrom, List.append_assoc] using hrep
          · rw [hev, hev1, hn1]; simp [clonesFrom]
          · intro h; obtain ⟨h1, h2⟩ := hok h; simp [h1, h2]
          · intro hco hg hN; exact hgood hco hg (by simp at hN ⊢; omega)
        · refine ⟨0, 1, v, r, (dropElem c w1 (cloneOne c w.nextId e)).1, false, ?_, by simpa using hr, by simp, ?_, ?_, ?_, by simp, ?_⟩
          · simp only [extendLoop, hnext, hpush]
          · rw [dropElem_evs', hev1]; simp [clonesFrom]
          · rw [(dropElem_evs c w1 _).2.1, hb1]
          · rw [(dropElem_evs c w1 _).2.2]; exact hmono
          · intro _ hg hN
            exfalso
            have := hr.len
            exact rawReserve_grow hc hg hr.bufOK (by rw [hfull]; exact Nat.le_refl _) (by simp at hN; omega) hres

/-- `extend_from_slice(&other)`: the clones of `other`, in order, are appended — all of them
unless `Clone` panics or the arena refuses the growth -/
theorem extendFromSlice_spec {c : Cfg} (hc : CfgOK c) (N : Nat) {v : VS} {xs : List Elem} (h : RepB c v xs) (src : List Elem) (w : W) :
    ∃ (j m : Nat) (v' : VS) (w' : W) (r : Option Unit), extend c v (.cloned src) w = (v', w', r) ∧ j + m ≤ src.length ∧
      RepB c v' (xs ++ (clonesFrom c w.nextId src).take j) ∧
      w'.evs = w.evs ++ dropEvs c (((clonesFrom c w.nextId src).drop j).take m) ∧ w'.bad = w.bad ∧ w.nextId ≤ w'.nextId ∧
      (r = some () → j = src.length ∧ m = 0) ∧ (CloneOK c → GrowOK c N → xs.length + src.length ≤ N → r = some ()) := by
  rw [extend_unfold, extendRef_unfold]
  cases hres : rawReserve c v v.len (It.cloned src).hintLo with
  | none =>
    refine ⟨0, 0, v, w, none, rfl, by simp, by simpa using h, by simp [dropEvs], rfl, Nat.le_refl _, by simp, ?_⟩
    intro _ hg hN
    exfalso
    exact rawReserve_grow hc hg h.bufOK h.lenCap (by rw [h.len]; simpa [It.hintLo] using hN) hres
  | some v1 =>
    obtain ⟨h1, _, _⟩ := rawReserve_some hc h hres
    obtain ⟨j, m, v', r', w', ok, hrun, hrep, hjm, hev, hb, hn, hok, hgood⟩ :=
      extendLoop_cloned_spec hc N ((It.cloned src).remaining + 1) v1 src w xs h1 (by simp [It.remaining])
    refine ⟨j, m, v', w', if ok then some () else none, ?_, hjm, hrep, hev, hb, hn, ?_, ?_⟩
    · simp only [hrun, It.dropRest]
    · intro hr; cases ok with
      | true => exact hok rfl
      | false => simp at hr
    · intro a b d; rw [hgood a b d]; rfl

/-- `Clone::clone` of the vector: a new vector holding the clones, in order; the original is not
touched; if `Clone` panics the partly built vector is dropped -/
theorem cloneVec_spec {c : Cfg} (hc : CfgOK c) (N : Nat) {v : VS} {xs : List Elem} (h : RepB c v xs) (w : W) :
    ∃ (r : Option VS) (w' : W), cloneVec c v w = (r, w') ∧ w'.bad = w.bad ∧
      (∀ nv, r = some nv → RepB c nv (clonesFrom c w.nextId xs) ∧ w'.evs = w.evs) ∧
      (r = none → ∃ j m, j + m ≤ xs.length ∧ w'.evs = w.evs ++ dropEvs c (((clonesFrom c w.nextId xs).drop j).take m) ++
        dropEvs c ((clonesFrom c w.nextId xs).take j)) ∧
      (CloneOK c → GrowOK c N → xs.length ≤ N → withCapacity c xs.length ≠ none → r ≠ none) := by
  have hlenU : v.len < USIZE := by have := h.lenCap; have := capOf_lt c v h.capLt; omega
  have hown : v.owned = xs := h.toRep.abs_eq
  unfold cloneVec
  rw [h.len] at hlenU ⊢
  cases hwc : withCapacity c xs.length with
  | none => exact ⟨none, w, rfl, rfl, by simp, fun _ => ⟨0, 0, Nat.zero_le _, by simp [dropEvs]⟩, fun _ _ _ hne => absurd rfl hne⟩
  | some n =>
    obtain ⟨hn, _, _, _, _⟩ := withCapacity_some hc hlenU hwc
    obtain ⟨j, m, v', w', r, hrun, hjm, hrep, hev, hb, _, hok, hgood⟩ := extendFromSlice_spec hc N hn xs w
    simp only [hown, hrun]
    cases r with
    | some u =>
      obtain ⟨hj, hm⟩ := hok rfl
      refine ⟨some v', w', rfl, hb, ?_, by simp, fun _ _ _ _ => by simp⟩
      intro nv hnv; cases hnv
      refine ⟨?_, by rw [hev, hm]; simp [dropEvs]⟩
      have : (clonesFrom c w.nextId xs).take j = clonesFrom c w.nextId xs := by
        rw [List.take_of_length_le]; rw [clonesFrom_length]; omega
      simpa [this] using hrep
    | none =>
      refine ⟨none, (dropVec c v' w').1, rfl, by rw [dropVec, dropAll_bad, hb], by simp, fun _ => ⟨j, m, hjm, ?_⟩, ?_⟩
      · rw [dropVec_own_evs hrep, hev]; simp
      · intro a b d _; have := hgood a b (by simpa using d); cases this

/-! ## `resize` / `extend_with` -/

theorem clonesFrom_replicate_succ (c : Cfg) (n k : Nat) (x : Elem) :
    clonesFrom c n (List.replicate (k + 1) x) = cloneOne c n x :: clonesFrom c (nextAfter c n) (List.replicate k x) := by
  simp [List.replicate_succ, clonesFrom]

/-- the clone loop of `extend_with`: `j ≤ k` clones of `value` are appended (fewer than `k` only
when `Clone` panicked); the buffer length does not change -/
theorem extendClones_spec (c : Cfg) (x : Elem) (cp : Nat) :
    ∀ (k : Nat) (ys : List Elem) (rest : List (Option Elem)) (w : W), (c.esz ≠ 0 → k ≤ rest.length) →
      ∃ (j : Nat) (rest' : List (Option Elem)) (w' : W) (ok : Bool),
        extendClones c x k ⟨ys.map some ++ rest, ys.length, cp⟩ w =
          (⟨(ys ++ (clonesFrom c w.nextId (List.replicate k x)).take j).map some ++ rest',
            (ys ++ (clonesFrom c w.nextId (List.replicate k x)).take j).length, cp⟩, w', ok) ∧
        j ≤ k ∧ w'.evs = w.evs ∧ w'.bad = w.bad ∧ w.nextId ≤ w'.nextId ∧ (ok = true → j = k) ∧
        (c.esz ≠ 0 → j + rest'.length = rest.length) ∧ (CloneOK c → ok = true) := by
  intro k
  induction k with
  | zero =>
    intro ys rest w _
    exact ⟨0, rest, w, true, by simp [extendClones], Nat.le_refl _, rfl, rfl, Nat.le_refl _, fun _ => rfl, fun _ => by simp, fun _ => rfl⟩
  | succ k ih =>
    intro ys rest w hroom
    rcases cloneElem_cases c w x with ⟨hfc, hpa, hcl⟩ | ⟨w1, hcl, hev1, hb1, hn1⟩
    · refine ⟨0, rest, { w with cloneCalls := w.cloneCalls + 1 }, false, by simp [extendClones, hcl], Nat.zero_le _, rfl, rfl, Nat.le_refl _,
        by simp, fun _ => by simp, fun hco => ?_⟩
      have := hco hfc; rw [this] at hpa; cases hpa
    · have hroom1 : c.esz ≠ 0 → rest ≠ [] := by
        intro he hnil; have := hroom he; subst hnil; simp at this
      obtain ⟨rest1, hw, hl⟩ := write_end c ys rest ys.length cp (cloneOne c w.nextId x) w1 hroom1
      have hroomk : c.esz ≠ 0 → k ≤ rest1.length := by
        intro he
        have h1 := hroom he
        have h2 := hl (hroom1 he)
        simp at h2; omega
      obtain ⟨j, rest', w', ok, hrun, hjk, hev, hb, hn, hok, hlen, hgood⟩ := ih (ys ++ [cloneOne c w.nextId x]) rest1 w1 hroomk
      have hmono : w.nextId ≤ w1.nextId := by rw [hn1]; unfold nextAfter; split <;> omega
      have hL : ys ++ (clonesFrom c w.nextId (List.replicate (k + 1) x)).take (j + 1) =
          ys ++ [cloneOne c w.nextId x] ++ (clonesFrom c w1.nextId (List.replicate k x)).take j := by
        rw [clonesFrom_replicate_succ, hn1]; simp
      refine ⟨j + 1, rest', w', ok, ?_, by omega, by rw [hev, hev1], by rw [hb, hb1], by omega, fun h => by rw [hok h], ?_, hgood⟩
      · simp only [extendClones, hcl, hw]
        have : ys.length + 1 = (ys ++ [cloneOne c w.nextId x]).length := by simp
        rw [this, hrun, hL]
      · intro he
        have h2 := hl (hroom1 he)
        have h3 := hlen he
        simp at h2 h3; omega

/-- `extend_with(n, value)` (the growing branch of `resize`): `n - 1` clones, then the value itself;
on a panic (`Clone`, or the reservation) the clones made so far stay and the value is dropped -/
theorem extendWith_spec {c : Cfg} (hc : CfgOK c) (N : Nat) {v : VS} {xs : List Elem} (h : RepB c v xs) (n : Nat) (x : Elem) (w : W) :
    ∃ (j : Nat) (v' : VS) (w' : W) (r : Option Unit), extendWith c v n x w = (v', w', r) ∧ j ≤ n - 1 ∧ w'.bad = w.bad ∧
      ((r = some () ∧ 0 < n ∧ RepB c v' (xs ++ clonesFrom c w.nextId (List.replicate (n - 1) x) ++ [x]) ∧ w'.evs = w.evs) ∨
       (r = some () ∧ n = 0 ∧ RepB c v' xs ∧ w'.evs = w.evs ++ dropEvs c [x]) ∨
       (r = none ∧ RepB c v' (xs ++ (clonesFrom c w.nextId (List.replicate (n - 1) x)).take j) ∧ w'.evs = w.evs ++ dropEvs c [x])) ∧
      (CloneOK c → c.dropPanicAt = none → GrowOK c N → xs.length + n ≤ N → r = some ()) := by
  rw [extendWith_unfold]
  cases hr : rawReserve c v v.len n with
  | none =>
    refine ⟨0, v, (dropElem c w x).1, none, rfl, Nat.zero_le _, (dropElem_evs c w x).2.1,
      Or.inr (Or.inr ⟨rfl, by simpa using h, dropElem_evs' c w x⟩), ?_⟩
    intro _ _ hg hN
    exfalso
    exact rawReserve_grow hc hg h.bufOK h.lenCap (by rw [h.len]; exact hN) hr
  | some v1 =>
    obtain ⟨h1, hge, _⟩ := rawReserve_some hc h hr
    rcases v1 with ⟨s1, l1, cp1⟩
    obtain ⟨rest1, rfl, rfl⟩ := h1.toRep.nf
    have hlen := h.len
    have hroom : c.esz ≠ 0 → n ≤ rest1.length := by
      intro he
      have hbuf := h1.buf he
      simp [capOf, he] at hge hbuf
      omega
    obtain ⟨j, rest', w', ok, hrun, hjk, hev, hb, hn, hok, hlen', hgood⟩ :=
      extendClones_spec c x cp1 (n - 1) xs rest1 w (fun he => by have := hroom he; omega)
    simp only [hrun]
    have hcl : ((clonesFrom c w.nextId (List.replicate (n - 1) x)).take j).length = j := by
      rw [List.length_take, clonesFrom_length]; simp; omega
    have hrepYs : RepB c ⟨(xs ++ (clonesFrom c w.nextId (List.replicate (n - 1) x)).take j).map some ++ rest',
        (xs ++ (clonesFrom c w.nextId (List.replicate (n - 1) x)).take j).length, cp1⟩
        (xs ++ (clonesFrom c w.nextId (List.replicate (n - 1) x)).take j) := by
      apply RepB.of_nf _ h1.capLt h1.capHalf
      · intro he; simp only [capOf, he, ↓reduceIte] at hge; simp [hcl]; omega
      · intro he
        have a := h1.buf he
        have b := hlen' he
        simp only [List.length_append, List.length_map, hcl] at a ⊢
        omega
    cases ok with
    | false =>
      simp only [Bool.not_false, ↓reduceIte]
      refine ⟨j, _, _, none, rfl, hjk, by rw [(dropElem_evs c w' x).2.1, hb],
        Or.inr (Or.inr ⟨rfl, hrepYs, by rw [dropElem_evs', hev]⟩), fun hco _ _ _ => by have := hgood hco; cases this⟩
    | true =>
      have hjn := hok rfl
      have hfull : (clonesFrom c w.nextId (List.replicate (n - 1) x)).take j = clonesFrom c w.nextId (List.replicate (n - 1) x) := by
        rw [List.take_of_length_le]; rw [clonesFrom_length]; simp; omega
      simp only [Bool.not_true, Bool.false_eq_true, ↓reduceIte]
      by_cases hn0 : n > 0
      · simp only [hn0, ↓reduceIte]
        have hroom1 : c.esz ≠ 0 → rest' ≠ [] := by
          intro he hnil
          have h1' := hroom he
          have h2 := hlen' he
          subst hnil; simp at h2; omega
        obtain ⟨rest2, hw, hl⟩ := write_end c (xs ++ (clonesFrom c w.nextId (List.replicate (n - 1) x)).take j) rest'
          (xs ++ (clonesFrom c w.nextId (List.replicate (n - 1) x)).take j).length cp1 x w' hroom1
        simp only [hw]
        refine ⟨j, _, w', some (), rfl, hjk, hb, Or.inl ⟨rfl, by first | exact hn0 | trivial, ?_, hev⟩, fun _ _ _ _ => rfl⟩
        rw [hfull] at hcl ⊢
        have hl2 : (xs ++ clonesFrom c w.nextId (List.replicate (n - 1) x)).length + 1 =
            (xs ++ clonesFrom c w.nextId (List.replicate (n - 1) x) ++ [x]).length := by
          simp only [List.length_append, List.length_singleton]
        rw [hl2]
        apply RepB.of_nf _ h1.capLt h1.capHalf
        · intro he; simp only [capOf, he, ↓reduceIte] at hge; simp [hcl]; omega
        · intro he
          rw [hfull] at hl
          rw [hl (hroom1 he)]
          have := h1.buf he
          have := hlen' he
          simp [hcl] at *; omega
      · have hn00 : n = 0 := by omega
        simp only [hn0, ↓reduceIte]
        have hj0 : j = 0 := by omega
        subst hj0
        simp only [List.take_zero, List.append_nil] at hrepYs ⊢
        cases hp : (dropElem c w' x).2 with
        | true =>
          refine ⟨0, _, _, none, rfl, Nat.zero_le _, by rw [(dropElem_evs c w' x).2.1, hb],
            Or.inr (Or.inr ⟨by simp, by simpa using hrepYs, by rw [dropElem_evs', hev]⟩), fun _ hdp _ _ => ?_⟩
          rw [dropElem_noPanic c w' x hdp] at hp; cases hp
        | false =>
          refine ⟨0, _, _, some (), rfl, Nat.zero_le _, by rw [(dropElem_evs c w' x).2.1, hb],
            Or.inr (Or.inl ⟨by simp, hn00, hrepYs, by rw [dropElem_evs', hev]⟩), fun _ _ _ _ => by simp⟩

/-- the growing branch of `resize` with a `Clone` that does not panic and an arena that serves
the growth: the vector ends with `n - len - 1` clones and the value itself — `n - len` elements
carrying `value`'s value -/
theorem resize_grow_spec {c : Cfg} (hc : CfgOK c) (N : Nat) {v : VS} {xs : List Elem} (h : RepB c v xs) (n : Nat) (x : Elem) (w : W)
    (hn : xs.length < n) (hco : CloneOK c) (hg : GrowOK c N) (hN : n ≤ N) :
    ∃ v' w', resize c v n x w = (v', w', some ()) ∧
      RepB c v' (xs ++ clonesFrom c w.nextId (List.replicate (n - xs.length - 1) x) ++ [x]) ∧ w'.evs = w.evs ∧ w'.bad = w.bad := by
  have hlen := h.len
  obtain ⟨j, v', w', r, hrun, _, hb, hcases, hgood⟩ := extendWith_spec hc N h (n - xs.length) x w
  have hr : r = some () := by
    -- `dropPanicAt` is irrelevant on this branch: the value is moved in, not dropped
    rcases hcases with ⟨hr, _⟩ | ⟨_, h0, _⟩ | ⟨hr, hrep, hev⟩
    · exact hr
    · omega
    · -- `r = none` is impossible: no clone panic, no refusal
      exfalso
      rw [extendWith_unfold] at hrun
      cases hres : rawReserve c v v.len (n - xs.length) with
      | none => exact rawReserve_grow hc hg h.bufOK h.lenCap (by rw [hlen]; omega) hres
      | some v1 =>
        obtain ⟨h1, _, _⟩ := rawReserve_some hc h hres
        rcases v1 with ⟨s1, l1, cp1⟩
        obtain ⟨rest1, rfl, rfl⟩ := h1.toRep.nf
        rw [hres] at hrun
        simp only at hrun
        have hpos : n - xs.length > 0 := by omega
        by_cases hok : (extendClones c x (n - xs.length - 1) ⟨xs.map some ++ rest1, xs.length, cp1⟩ w).2.2 = true
        · simp [hok, hpos] at hrun
          rw [← hrun.2.2] at hr; cases hr
        · -- the clone loop stopped: only a panicking `Clone` does that
          obtain ⟨j', rest', w'', ok, hrun', _, _, _, _, _, _, hgood'⟩ := extendClones_spec c x cp1 (n - xs.length - 1) xs rest1 w (by
            intro he
            have := rawReserve_some hc h hres
            have hge := this.2.1
            have hbuf := h1.buf he
            simp [capOf, he] at hge hbuf
            omega)
          rw [hrun'] at hok
          exact hok (hgood' hco)
  subst hr
  rcases hcases with ⟨_, _, hrep, hev⟩ | ⟨_, h0, _⟩ | ⟨hr, _⟩
  · refine ⟨v', w', ?_, hrep, hev, hb⟩
    unfold resize; rw [hlen, if_pos hn]; exact hrun
  · omega
  · cases hr

/-- the shrinking branch of `resize` (destructors do not panic): `truncate(n)`, then the value
is dropped -/
theorem resize_shrink_spec {c : Cfg} {v : VS} {xs : List Elem} (h : RepB c v xs) (n : Nat) (x : Elem) (w : W)
    (hn : n ≤ xs.length) (hnp : c.dropPanicAt = none) :
    ∃ v' w', resize c v n x w = (v', w', some ()) ∧ RepB c v' (xs.take n) ∧
      w'.evs = w.evs ++ dropEvs c (xs.drop n).reverse ++ dropEvs c [x] ∧ w'.bad = w.bad := by
  obtain ⟨m, v', w', r, hp, _, _, hr, hev, hb, _, hm, hnone⟩ := truncate_spec h n w
  have hr1 := hnone hnp
  have hm1 := hm hr1
  subst hr1
  have hmn : m = n := by omega
  subst hmn
  refine ⟨v', (dropElem c w' x).1, ?_, hr, by rw [dropElem_evs', hev], by rw [(dropElem_evs c w' x).2.1, hb]⟩
  unfold resize
  have : ¬ m > v.len := by rw [h.len]; omega
  rw [if_neg this]
  simp only [hp, dropElem_noPanic c w' x hnp]
  rfl

/-! ## `extend_from_slice_copy`, `extend_from_slices_copy`, `io::Write` (`T: Copy`) -/

theorem extendFromSliceCopy_unfold (c : Cfg) (v : VS) (src : List Elem) (w : W) :
    extendFromSliceCopy c v src w =
      match rawReserve c v v.len src.length with
      | none => (v, w, none)
      | some v1 =>
        ({ (v1.copyFrom c (src.map some) v1.len w).1 with len := (v1.copyFrom c (src.map some) v1.len w).1.len + src.length },
          (v1.copyFrom c (src.map some) v1.len w).2, some ()) := rfl

/-- `extend_from_slice_copy(other)`: one reservation, one `copy_nonoverlapping`; panics (nothing
changes) only when the growth is refused -/
theorem extendFromSliceCopy_spec {c : Cfg} (hc : CfgOK c) {v : VS} {xs : List Elem} (h : RepB c v xs) (src : List Elem) (w : W) :
    (∃ v', extendFromSliceCopy c v src w = (v', w, some ()) ∧ RepB c v' (xs ++ src)) ∨
    (extendFromSliceCopy c v src w = (v, w, none) ∧ rawReserve c v v.len src.length = none) := by
  rw [extendFromSliceCopy_unfold]
  cases hr : rawReserve c v v.len src.length with
  | none => right; exact ⟨rfl, rfl⟩
  | some v1 =>
    left
    obtain ⟨h1, hge, _⟩ := rawReserve_some hc h hr
    rcases v1 with ⟨s1, l1, cp1⟩
    obtain ⟨rest1, rfl, rfl⟩ := h1.toRep.nf
    have hroom : c.esz ≠ 0 → src.length ≤ rest1.length := by
      intro he
      have hbuf := h1.buf he
      have hlen := h.len
      simp [capOf, he] at hge hbuf
      omega
    obtain ⟨hcp, hl⟩ := copyFrom_end c xs src rest1 xs.length cp1 w hroom
    simp only [hcp]
    refine ⟨_, rfl, ?_⟩
    have hlen' : xs.length + src.length = (xs ++ src).length := by simp
    rw [hlen']
    apply RepB.of_nf _ h1.capLt h1.capHalf
    · intro he
      have := h.len
      simp only [capOf, he, ↓reduceIte, List.length_append] at hge ⊢
      omega
    · intro he; rw [hl (hroom he)]; exact h1.buf he

/-- the unchecked copies of `extend_from_slices_copy` after its single reservation -/
theorem copySlices_spec (c : Cfg) (cp : Nat) (hcp : cp < USIZE) (hhalf : c.esz ≠ 0 → cp * 2 < USIZE) :
    ∀ (srcs : List (List Elem)) (ys : List Elem) (rest : List (Option Elem)) (w : W),
      (c.esz ≠ 0 → (ys.map some ++ rest).length = cp) →
      ys.length + (srcs.map List.length).sum ≤ capOf c ⟨ys.map some ++ rest, ys.length, cp⟩ →
      ∃ v', copySlices c srcs ⟨ys.map some ++ rest, ys.length, cp⟩ w = (v', w) ∧ RepB c v' (ys ++ srcs.flatten) := by
  intro srcs
  induction srcs with
  | nil =>
    intro ys rest w hbuf hcap
    refine ⟨_, rfl, ?_⟩
    simp only [List.flatten_nil, List.append_nil]
    apply RepB.of_nf hbuf hcp hhalf
    intro he; simp only [capOf, he, ↓reduceIte] at hcap; omega
  | cons s ss ih =>
    intro ys rest w hbuf hcap
    have hcapv : ∀ (sl : List (Option Elem)) (l : Nat), capOf c ⟨sl, l, cp⟩ = capOf c ⟨ys.map some ++ rest, ys.length, cp⟩ := by
      intro sl l; simp [capOf]
    simp only [List.map_cons, List.sum_cons] at hcap
    have hroom : c.esz ≠ 0 → s.length ≤ rest.length := by
      intro he
      have hb := hbuf he
      simp [capOf, he] at hcap hb
      omega
    obtain ⟨hcf, hl⟩ := copyFrom_end c ys s rest ys.length cp w hroom
    have hdbg : (c.dbg && decide (ys.length + s.length > capOf c ⟨ys.map some ++ rest, ys.length, cp⟩)) = false := by
      have : ¬ ys.length + s.length > capOf c ⟨ys.map some ++ rest, ys.length, cp⟩ := by omega
      simp [this]
    have hlen' : ys.length + s.length = (ys ++ s).length := by simp
    obtain ⟨v', hrun, hrep⟩ := ih (ys ++ s) (rest.drop s.length) w
      (fun he => by rw [hl (hroom he)]; exact hbuf he)
      (by rw [hcapv]; simp; omega)
    refine ⟨v', ?_, by simpa [List.append_assoc] using hrep⟩
    simp only [copySlices, hdbg, Bool.false_eq_true, ↓reduceIte, hcf]
    rw [hlen']
    exact hrun

/-- `extend_from_slices_copy(slices)`: reserve the total once, then copy slice by slice -/
theorem extendFromSlicesCopy_spec {c : Cfg} (hc : CfgOK c) {v : VS} {xs : List Elem} (h : RepB c v xs) (srcs : List (List Elem)) (w : W) :
    (∃ v', extendFromSlicesCopy c v srcs w = (v', w, some ()) ∧ RepB c v' (xs ++ srcs.flatten)) ∨
    (extendFromSlicesCopy c v srcs w = (v, w, none) ∧ rawReserve c v v.len (srcs.map List.length).sum = none) := by
  unfold extendFromSlicesCopy
  cases hr : rawReserve c v v.len (srcs.map List.length).sum with
  | none => right; exact ⟨rfl, rfl⟩
  | some v1 =>
    left
    obtain ⟨h1, hge, _⟩ := rawReserve_some hc h hr
    rcases v1 with ⟨s1, l1, cp1⟩
    obtain ⟨rest1, rfl, rfl⟩ := h1.toRep.nf
    obtain ⟨v', hrun, hrep⟩ := copySlices_spec c cp1 h1.capLt h1.capHalf srcs xs rest1 w h1.buf (by rw [← h.len]; exact hge)
    simp only [hrun]
    exact ⟨v', rfl, hrep⟩

/-! ## `shrink_to_fit`, `into_boxed_slice` -/

/-- `shrink_to_fit()`: the contents do not change, `capacity() = len` afterwards; it panics only
when the arena refuses the reallocation -/
theorem shrinkToFit_spec {c : Cfg} {v : VS} {xs : List Elem} (h : RepB c v xs) :
    (∃ v', shrinkToFit c v = some v' ∧ RepB c v' xs ∧ (c.esz ≠ 0 → capOf c v' = xs.length)) ∨
    (shrinkToFit c v = none ∧ c.allocOk = false ∧ c.esz ≠ 0 ∧ xs.length ≠ 0 ∧ xs.length < v.cap) := by
  have hlen := h.len
  have hlc := h.lenCap
  unfold shrinkToFit
  by_cases h1 : capOf c v = v.len
  · left; rw [if_pos h1]; exact ⟨v, rfl, h, fun _ => by rw [h1, hlen]⟩
  · rw [if_neg h1]
    by_cases he : c.esz = 0
    · left; rw [if_pos he]
      refine ⟨_, rfl, ⟨⟨h.slots, hlen, fun h0 => absurd he h0, by simp [capOf, he]; have := h.lenCap; simp [capOf, he] at this; exact this⟩,
        ?_, fun h0 => absurd he h0⟩, fun h0 => absurd he h0⟩
      have := capOf_lt c v h.capLt; simp only at this ⊢; omega
    · rw [if_neg he]
      have hcap : capOf c v = v.cap := by simp [capOf, he]
      rw [hcap] at h1 hlc
      have h2 : ¬ v.cap < v.len := by omega
      rw [if_neg h2]
      rcases v with ⟨sl, l, cp⟩
      obtain ⟨rest, rfl, rfl⟩ := h.toRep.nf
      simp only at h1 hlc h2 ⊢
      by_cases h0 : xs.length = 0
      · left; rw [if_pos h0]
        have hx : xs = [] := List.eq_nil_of_length_eq_zero h0
        subst hx
        exact ⟨_, rfl, ⟨⟨⟨[], rfl⟩, rfl, fun _ => rfl, by simp⟩, by simp [USIZE], fun _ => by simp [USIZE]⟩, fun _ => by simp [capOf, he]⟩
      · rw [if_neg h0]
        by_cases hal : c.allocOk = true
        · left
          simp only [hal, Bool.not_true, Bool.false_eq_true, ↓reduceIte]
          refine ⟨_, rfl, ?_, fun _ => by simp [capOf, he]⟩
          have hrs : resizeSlots (xs.map some ++ rest) xs.length = xs.map some ++ [] := by
            simp [resizeSlots, List.take_append]
          rw [hrs]
          have := h.capHalf he
          have hU : USIZE = 2 ^ 64 := rfl
          simp only at this
          apply RepB.of_nf (fun _ => by simp) (by omega) (fun _ => by omega)
          intro h0'; exact absurd h0' he
        · right
          have hal' : c.allocOk = false := by simpa using hal
          simp only [hal', Bool.not_false, ↓reduceIte]
          exact ⟨trivial, trivial, he, h0, by omega⟩

/-- `into_boxed_slice()` hands the contents, unchanged, to a `Box<[T]>`; dropping that box drops
each element exactly once, in order -/
theorem intoBoxed_spec {c : Cfg} {v : VS} {xs : List Elem} (h : RepB c v xs) (w : W) :
    (intoBoxedThenDrop c v w).1 = xs ∧ (intoBoxedThenDrop c v w).2.1.evs = w.evs ++ dropEvs c xs ∧
      (intoBoxedThenDrop c v w).2.1.bad = w.bad ∧ (c.dropPanicAt = none → (intoBoxedThenDrop c v w).2.2 = false) := by
  have hown : v.owned = xs := h.toRep.abs_eq
  refine ⟨?_, ?_, ?_, ?_⟩
  · simp only [intoBoxedThenDrop, hown]
  · simp only [intoBoxedThenDrop, hown]; exact dropAll_evs c xs w
  · simp only [intoBoxedThenDrop, hown]; exact dropAll_bad c xs w
  · simp only [intoBoxedThenDrop, hown]; exact dropAll_noPanic c xs w

/-! ## `dedup_by` / `dedup_by_key` / `dedup` with a comparison that is a function of the two elements -/

/-- what `dedup_by(same)` keeps of the elements after `b` (the last kept one) -/
def dedupKeep (same : Elem → Elem → Bool) : Elem → List Elem → List Elem
  | _, [] => []
  | b, a :: r => if same a b then dedupKeep same b r else a :: dedupKeep same a r

/-- … and what it removes -/
def dedupDups (same : Elem → Elem → Bool) : Elem → List Elem → List Elem
  | _, [] => []
  | b, a :: r => if same a b then a :: dedupDups same b r else dedupDups same a r

/-- `dedup_by(same)` on lists: the first element of every run of "same" elements -/
def dedupSpec (same : Elem → Elem → Bool) : List Elem → List Elem
  | [] => []
  | x :: xs => x :: dedupKeep same x xs

def dedupRemoved (same : Elem → Elem → Bool) : List Elem → List Elem
  | [] => []
  | x :: xs => dedupDups same x xs

theorem dedup_length (same : Elem → Elem → Bool) (b : Elem) (U : List Elem) :
    (dedupKeep same b U).length + (dedupDups same b U).length = U.length := by
  induction U generalizing b with
  | nil => rfl
  | cons a r ih =>
    simp only [dedupKeep, dedupDups]
    split
    · have := ih b; simp; omega
    · have := ih a; simp; omega

theorem set_swap {α} (K D U : List α) (d0 a : α) :
    ((K ++ d0 :: (D ++ a :: U)).set (K.length + (D.length + 1)) d0).set K.length a = K ++ a :: (D ++ d0 :: U) := by
  simp

theorem swapSlots_mid (K D U : List Elem) (d0 a : Elem) (rest : List (Option Elem)) :
    swapSlots ((K ++ d0 :: (D ++ a :: U)).map some ++ rest) (K.length + (D.length + 1)) K.length =
      (K ++ a :: (D ++ d0 :: U)).map some ++ rest := by
  have hi : K.length + (D.length + 1) < (K ++ d0 :: (D ++ a :: U)).length := by simp
  have hj : K.length < (K ++ d0 :: (D ++ a :: U)).length := by simp
  rw [swapSlots_rep _ rest _ _ hi hj]
  have h1 : (K ++ d0 :: (D ++ a :: U))[K.length] = d0 := by simp
  have h2 : (K ++ d0 :: (D ++ a :: U))[K.length + (D.length + 1)] = a := by
    rw [List.getElem_append_right (by omega)]
    simp
  rw [h1, h2, set_swap]

theorem slot_mid (A B : List Elem) (x : Elem) (rest : List (Option Elem)) :
    (((A ++ x :: B).map some ++ rest)[A.length]?).join = some x := by
  have h : A.length < (A ++ x :: B).length := by simp
  rw [getElem?_join_map_some _ rest _ h]
  simp

theorem dedupLoop_done (cb : Nat → Elem → Elem → Option Bool) (len f : Nat) (s : List (Option Elem)) (r wr calls : Nat) (w : W)
    (h : ¬ r < len) : dedupLoop cb len (f + 1) s r wr calls w = (s, wr, w, true) := by
  rw [dedupLoop]; simp [h]

theorem dedupLoop_step_same (cb : Nat → Elem → Elem → Option Bool) (len f : Nat) (s : List (Option Elem)) (r wr calls : Nat) (w : W)
    (a b : Elem) (h : r < len) (ha : (s[r]?).join = some a) (hb : (s[wr - 1]?).join = some b) (hcb : cb calls a b = some true) :
    dedupLoop cb len (f + 1) s r wr calls w = dedupLoop cb len f s (r + 1) wr (calls + 1) w := by
  rw [dedupLoop]; simp [h, ha, hb, hcb]

theorem dedupLoop_step_diff (cb : Nat → Elem → Elem → Option Bool) (len f : Nat) (s : List (Option Elem)) (r wr calls : Nat) (w : W)
    (a b : Elem) (h : r < len) (ha : (s[r]?).join = some a) (hb : (s[wr - 1]?).join = some b) (hcb : cb calls a b = some false) :
    dedupLoop cb len (f + 1) s r wr calls w =
      dedupLoop cb len f (if r ≠ wr then swapSlots s r wr else s) (r + 1) (wr + 1) (calls + 1) w := by
  rw [dedupLoop]; simp [h, ha, hb, hcb]

/-- the loop of `partition_dedup_by` for a comparison that is a function of the two elements:
the kept elements stay in front, in order; the duplicates are swapped behind them -/
theorem dedupLoop_pure (same : Elem → Elem → Bool) (rest : List (Option Elem)) (w : W) (len : Nat) :
    ∀ (fuel : Nat) (K0 : List Elem) (b : Elem) (D U : List Elem) (calls : Nat) (s : List (Option Elem)) (r wr : Nat),
      U.length ≤ fuel → len = K0.length + 1 + D.length + U.length →
      s = (K0 ++ b :: (D ++ U)).map some ++ rest → r = K0.length + 1 + D.length → wr = K0.length + 1 →
      ∃ (D' L : List Elem) (n : Nat), dedupLoop (fun _ a b => some (same a b)) len fuel s r wr calls w = (L.map some ++ rest, n, w, true) ∧
        L = K0 ++ b :: (dedupKeep same b U ++ D') ∧ n = K0.length + 1 + (dedupKeep same b U).length ∧
        D'.Perm (D ++ dedupDups same b U) := by
  intro fuel
  induction fuel with
  | zero =>
    intro K0 b D U calls s r wr hU hlen hs hr hwr
    have : U = [] := List.eq_nil_of_length_eq_zero (by omega)
    subst this
    exact ⟨D, K0 ++ b :: D, wr, by rw [dedupLoop, hs]; simp, by simp [dedupKeep], by simp [dedupKeep, hwr], by simp [dedupDups]⟩
  | succ f ih =>
    intro K0 b D U calls s r wr hU hlen hs hr hwr
    cases U with
    | nil =>
      have hnr : ¬ r < len := by simp at hlen; omega
      refine ⟨D, K0 ++ b :: D, wr, ?_, by simp [dedupKeep], by simp [dedupKeep, hwr], by simp [dedupDups]⟩
      rw [dedupLoop_done _ _ _ _ _ _ _ _ hnr, hs]; simp
    | cons a U' =>
      have hrl : r < len := by simp at hlen; omega
      have ha : (s[r]?).join = some a := by
        have e1 : K0 ++ b :: (D ++ a :: U') = (K0 ++ b :: D) ++ a :: U' := by simp
        have e2 : r = (K0 ++ b :: D).length := by simp only [List.length_append, List.length_cons]; omega
        rw [hs, e1, e2]; exact slot_mid _ _ _ _
      have hb : (s[wr - 1]?).join = some b := by
        have e2 : wr - 1 = K0.length := by omega
        rw [hs, e2]; exact slot_mid _ _ _ _
      by_cases hsm : same a b = true
      · obtain ⟨D', L, n, hrun, hL, hn, hperm⟩ := ih K0 b (D ++ [a]) U' (calls + 1) s (r + 1) wr (by simp at hU; omega)
          (by simp at hlen ⊢; omega) (by rw [hs]; simp) (by simp; omega) hwr
        refine ⟨D', L, n, ?_, by rw [hL]; simp [dedupKeep, hsm], by rw [hn]; simp [dedupKeep, hsm], ?_⟩
        · rw [dedupLoop_step_same _ _ _ _ _ _ _ _ a b hrl ha hb (by simp [hsm])]; exact hrun
        · simp only [dedupDups, hsm, ↓reduceIte]
          simpa [List.append_assoc] using hperm
      · have hs' : same a b = false := by simpa using hsm
        cases D with
        | nil =>
          have hrw : ¬ r ≠ wr := by simp at hr; omega
          obtain ⟨D', L, n, hrun, hL, hn, hperm⟩ := ih (K0 ++ [b]) a [] U' (calls + 1) s (r + 1) (wr + 1) (by simp at hU; omega)
            (by simp at hlen ⊢; omega) (by rw [hs]; simp) (by simp at hr ⊢; omega) (by simp; omega)
          refine ⟨D', L, n, ?_, by rw [hL]; simp [dedupKeep, hs'], by rw [hn]; simp [dedupKeep, hs']; omega, ?_⟩
          · rw [dedupLoop_step_diff _ _ _ _ _ _ _ _ a b hrl ha hb (by simp [hs']), if_neg hrw]; exact hrun
          · simp only [dedupDups, hs', Bool.false_eq_true, ↓reduceIte]
            simpa using hperm
        | cons d0 D'' =>
          have hrw : r ≠ wr := by simp at hr; omega
          have hsw : swapSlots s r wr = ((K0 ++ [b]) ++ a :: (D'' ++ d0 :: U')).map some ++ rest := by
            have e1 : K0 ++ b :: (d0 :: D'' ++ a :: U') = (K0 ++ [b]) ++ d0 :: (D'' ++ a :: U') := by simp
            have e2 : r = (K0 ++ [b]).length + (D''.length + 1) := by
              simp only [List.length_append, List.length_cons, List.length_nil] at hr ⊢; omega
            have e3 : wr = (K0 ++ [b]).length := by simp only [List.length_append, List.length_cons, List.length_nil]; omega
            rw [hs, e1, e2, e3]; exact swapSlots_mid _ _ _ _ _ _
          obtain ⟨D', L, n, hrun, hL, hn, hperm⟩ := ih (K0 ++ [b]) a (D'' ++ [d0]) U' (calls + 1) (swapSlots s r wr) (r + 1) (wr + 1)
            (by simp at hU; omega) (by simp at hlen ⊢; omega) (by rw [hsw]; simp) (by simp at hr ⊢; omega) (by simp; omega)
          refine ⟨D', L, n, ?_, by rw [hL]; simp [dedupKeep, hs'], by rw [hn]; simp [dedupKeep, hs']; omega, ?_⟩
          · rw [dedupLoop_step_diff _ _ _ _ _ _ _ _ a b hrl ha hb (by simp [hs']), if_pos hrw]; exact hrun
          · simp only [dedupDups, hs', Bool.false_eq_true, ↓reduceIte]
            refine hperm.trans ?_
            simp only [List.append_assoc, List.cons_append, List.nil_append]
            exact List.perm_middle

/-- `dedup_by(same)` (and `dedup` = `dedup_by(==)`, `dedup_by_key(k)` = `dedup_by(k(a) == k(b))`) with a
comparison that is a function of the two elements and destructors that do not panic: the vector keeps
`dedupSpec same xs` — the first element of every run —, the other elements (`zs`, some order) are
dropped, the call returns -/
theorem dedupBy_pure_spec {c : Cfg} {v : VS} {xs : List Elem} (h : RepB c v xs) (same : Elem → Elem → Bool) (w : W)
    (hnp : c.dropPanicAt = none) :
    ∃ (v' : VS) (w' : W) (zs : List Elem), dedupBy c v (fun _ a b => some (same a b)) w = (v', w', some ()) ∧
      RepB c v' (dedupSpec same xs) ∧ w'.evs = w.evs ++ dropEvs c zs ∧ zs.Perm (dedupRemoved same xs) ∧ w'.bad = w.bad := by
  rw [dedupBy_unfold]
  by_cases h1 : v.len ≤ 1
  · simp only [h1, ↓reduceIte]
    obtain ⟨m, v', w', r, hp, hm1, hm2, hr, hev, hb, _, hm, hnone⟩ := truncate_spec h v.len w
    have hr1 := hnone hnp
    subst hr1
    have hmm := hm rfl
    rw [h.len] at hmm h1
    have hmx : m = xs.length := by omega
    have hspec : dedupSpec same xs = xs := by
      match xs, h1 with
      | [], _ => rfl
      | [x], _ => rfl
      | _ :: _ :: _, h1 => simp at h1
    have hrem : dedupRemoved same xs = [] := by
      match xs, h1 with
      | [], _ => rfl
      | [x], _ => rfl
      | _ :: _ :: _, h1 => simp at h1
    refine ⟨v', w', [], hp, ?_, ?_, by rw [hrem], hb⟩
    · rw [hspec]; rw [hmx, List.take_length] at hr; exact hr
    · rw [hev, hmx, List.drop_length]; simp [dropEvs]
  · simp only [h1, ↓reduceIte]
    rcases v with ⟨sl, l, cp⟩
    obtain ⟨rest, rfl, rfl⟩ := h.toRep.nf
    cases xs with
    | nil => simp at h1
    | cons x xs' =>
      obtain ⟨D', L, n, hrun, hL, hn, hperm⟩ := dedupLoop_pure same rest w (x :: xs').length (x :: xs').length [] x [] xs' 0
        ((x :: xs').map some ++ rest) 1 1 (by simp) (by simp; omega) (by simp) (by simp) (by simp)
      simp only [hrun]
      simp only [List.nil_append, List.length_nil, Nat.zero_add] at hL hn hperm
      have hDl : D'.length = (dedupDups same x xs').length := hperm.length_eq
      have hlen := dedup_length same x xs'
      have hLl : L.length = (x :: xs').length := by rw [hL]; simp; omega
      have hrepL : RepB c ⟨L.map some ++ rest, (x :: xs').length, cp⟩ L := by
        have := h.shrink (ys := L) (rest' := rest) (by simp [hLl]; omega) (by omega)
        rw [hLl] at this
        exact this
      obtain ⟨m, v', w', r, hp, hm1, hm2, hr, hev, hb, _, hm, hnone⟩ := truncate_spec hrepL n w
      have hr1 := hnone hnp
      subst hr1
      have hmm := hm rfl
      have hmn : m = n := by rw [hmm, hLl]; simp at hlen ⊢; omega
      subst hmn
      have htake : L.take m = dedupSpec same (x :: xs') := by
        rw [hL, hn]
        simp only [dedupSpec]
        rw [show 1 + (dedupKeep same x xs').length = (x :: dedupKeep same x xs').length by simp; omega]
        rw [show x :: (dedupKeep same x xs' ++ D') = (x :: dedupKeep same x xs') ++ D' by simp]
        exact List.take_left
      have hdrop : L.drop m = D' := by
        rw [hL, hn]
        rw [show 1 + (dedupKeep same x xs').length = (x :: dedupKeep same x xs').length by simp; omega]
        rw [show x :: (dedupKeep same x xs' ++ D') = (x :: dedupKeep same x xs') ++ D' by simp]
        exact List.drop_left
      refine ⟨v', w', D'.reverse, hp, by rw [← htake]; exact hr, by rw [hev, hdrop], ?_, hb⟩
      exact (List.reverse_perm D').trans hperm

/-! ## `io::Write` -/

/-- `write(buf)` / `write_all(buf)` append `buf` and report `buf.len()` bytes written; they fail
(panic) only when the growth is refused -/
theorem ioWrite_spec {c : Cfg} (hc : CfgOK c) {v : VS} {xs : List Elem} (h : RepB c v xs) (buf : List Elem) (w : W) :
    (∃ v', ioWrite c v buf w = (v', w, some buf.length) ∧ RepB c v' (xs ++ buf)) ∨
    (ioWrite c v buf w = (v, w, none) ∧ rawReserve c v v.len buf.length = none) := by
  unfold ioWrite
  rcases extendFromSliceCopy_spec hc h buf w with ⟨v', hrun, hrep⟩ | ⟨hrun, hres⟩
  · left; rw [hrun]; exact ⟨v', rfl, hrep⟩
  · right; rw [hrun]; exact ⟨rfl, hres⟩

/-! ## `bumpalo::vec!` -/

/-- the clone-and-push loop of `vec![in b; elem; n]` is the push loop over a cloning iterator -/
theorem vmacroPushes_eq (c : Cfg) (x : Elem) :
    ∀ (k : Nat) (v : VS) (w : W) (f : Nat), k < f →
      vmacroPushes c x k v w = ((extendLoop c f v (.cloned (List.replicate k x)) w).1,
        (extendLoop c f v (.cloned (List.replicate k x)) w).2.2.1, (extendLoop c f v (.cloned (List.replicate k x)) w).2.2.2) := by
  intro k
  induction k with
  | zero =>
    intro v w f hf
    obtain ⟨f', rfl⟩ : ∃ f', f = f' + 1 := ⟨f - 1, by omega⟩
    simp [vmacroPushes, extendLoop, It.next]
  | succ k ih =>
    intro v w f hf
    obtain ⟨f', rfl⟩ : ∃ f', f = f' + 1 := ⟨f - 1, by omega⟩
    simp only [vmacroPushes, extendLoop, It.next, List.replicate_succ]
    cases hcl : cloneElem c w x with
    | mk w1 r =>
      cases r with
      | none => rfl
      | some e =>
        simp only
        cases hp : push c v e w1 with
        | mk v1 r2 =>
          rcases r2 with ⟨w2, r3⟩
          cases r3 with
          | none => rfl
          | some u => simp only; exact ih v1 w2 f' (by omega)

/-- `vec![in b; elem; n]` with a `Clone` that does not panic and an arena that serves the requests:
`n - 1` clones followed by the value itself (`n` elements carrying `elem`'s value); for `n = 0` the
element expression is not evaluated -/
theorem vmacroN_spec {c : Cfg} (hc : CfgOK c) (N : Nat) (x : Elem) (n : Nat) (w : W) (hco : CloneOK c) (hg : GrowOK c N)
    (hN : n ≤ N) (hwc : withCapacity c n ≠ none) :
    ∃ v' w', vmacroN c x n w = (some v', w', decide (n > 0)) ∧ w'.evs = w.evs ∧ w'.bad = w.bad ∧
      RepB c v' (if n = 0 then [] else clonesFrom c w.nextId (List.replicate (n - 1) x) ++ [x]) := by
  have hnU : n < USIZE := by have := hg.2.2; simp only [USIZE_MAX, USIZE] at *; omega
  unfold vmacroN
  cases hw : withCapacity c n with
  | none => exact absurd hw hwc
  | some v0 =>
    obtain ⟨hr0, _, _, _, _⟩ := withCapacity_some hc hnU hw
    by_cases hn0 : n = 0
    · simp only [hn0, ↓reduceIte]
      exact ⟨v0, w, by simp, rfl, rfl, hr0⟩
    · simp only [hn0, ↓reduceIte]
      obtain ⟨j, m, v1, r', w1, ok, hrun, hrep, hjm, hev, hb, _, hok, hgood⟩ :=
        extendLoop_cloned_spec hc N (n - 1 + 1) v0 (List.replicate (n - 1) x) w [] hr0 (by simp)
      have hok1 : ok = true := hgood hco hg (by simp; omega)
      subst hok1
      obtain ⟨hj, hm⟩ := hok rfl
      rw [vmacroPushes_eq c x (n - 1) v0 w (n - 1 + 1) (by omega), hrun]
      simp only
      have hfull : (clonesFrom c w.nextId (List.replicate (n - 1) x)).take j = clonesFrom c w.nextId (List.replicate (n - 1) x) := by
        rw [List.take_of_length_le]; rw [clonesFrom_length]; omega
      rw [hfull] at hrep
      simp only [List.nil_append] at hrep
      rcases push_spec hc hrep x w1 with ⟨v2, hpush, hr2⟩ | ⟨hpush, hfl, hres⟩
      · rw [hpush]
        refine ⟨v2, w1, by simp; omega, by rw [hev, hm]; simp [dropEvs], hb, hr2⟩
      · exfalso
        have hl := hrep.len
        rw [clonesFrom_length] at hl
        simp at hl
        exact rawReserve_grow hc hg hrep.bufOK (by rw [hfl]; exact Nat.le_refl _) (by omega) hres

theorem vmacroN_unfold (c : Cfg) (x : Elem) (n : Nat) (w : W) :
    vmacroN c x n w =
      match withCapacity c n with
      | none => (none, w, false)
      | some v =>
        if n = 0 then (some v, w, false)
        else
          if (vmacroPushes c x (n - 1) v w).2.2 then
            if (push c (vmacroPushes c x (n - 1) v w).1 x (vmacroPushes c x (n - 1) v w).2.1).2.2.isSome then
              (some (push c (vmacroPushes c x (n - 1) v w).1 x (vmacroPushes c x (n - 1) v w).2.1).1,
                (push c (vmacroPushes c x (n - 1) v w).1 x (vmacroPushes c x (n - 1) v w).2.1).2.1, true)
            else (none, (dropVec c (push c (vmacroPushes c x (n - 1) v w).1 x (vmacroPushes c x (n - 1) v w).2.1).1
                (push c (vmacroPushes c x (n - 1) v w).1 x (vmacroPushes c x (n - 1) v w).2.1).2.1).1, true)
          else (none, (dropVec c (vmacroPushes c x (n - 1) v w).1 (dropElem c (vmacroPushes c x (n - 1) v w).2.1 x).1).1, true) := by
  unfold vmacroN
  cases withCapacity c n with
  | none => rfl
  | some v =>
    simp only
    split
    · rfl
    · generalize vmacroPushes c x (n - 1) v w = r
      rcases r with ⟨v1, w1, ok⟩
      cases ok with
      | false => rfl
      | true =>
        simp only
        generalize push c v1 x w1 = p
        rcases p with ⟨v2, w2, _ | u⟩ <;> rfl

/-- `vec![in b; elem; n]` with a `Clone` that panics at any call (and any refusal of the arena): the
clones made are owned by the new vector or were dropped once with it; `elem` is moved in last,
dropped by the unwinding, or — for `n = 0` — never evaluated (`n` is a `usize`) -/
theorem vmacroN_own {c : Cfg} {ins held : List Nat} (hc : CfgOK c) (hd : c.needsDrop = true) (hf : c.freshClone = true)
    (x : Elem) (n : Nat) (hnU : n < USIZE) (w : W) (ho : Own ins [] w.evs (x.id :: held)) (hfr : Fresh ins w.nextId) :
    ∃ ys ins', (∀ v', (vmacroN c x n w).1 = some v' → RepB c v' ys) ∧ ((vmacroN c x n w).1 = none → ys = []) ∧
      Own ins' ys (vmacroN c x n w).2.1.evs (if (vmacroN c x n w).2.2 then held else x.id :: held) ∧
      Fresh ins' (vmacroN c x n w).2.1.nextId := by
  rw [vmacroN_unfold]
  cases hw : withCapacity c n with
  | none => exact ⟨[], ins, by simp, fun _ => rfl, by simpa using ho, hfr⟩
  | some v0 =>
    have hr0 := (withCapacity_some hc hnU hw).1
    by_cases hn0 : n = 0
    · simp only [hn0, ↓reduceIte]
      exact ⟨[], ins, fun v' hv' => by simp at hv'; subst hv'; exact hr0, by simp, by simpa using ho, hfr⟩
    · simp only [hn0, ↓reduceIte]
      obtain ⟨ys', ins', hr', ho', hfr', _⟩ := extendLoop_cloned_own (held := x.id :: held) hc hd hf (n - 1 + 1) v0
        (List.replicate (n - 1) x) w [] ins hr0 ho hfr
      rw [vmacroPushes_eq c x (n - 1) v0 w (n - 1 + 1) (by omega)]
      generalize extendLoop c (n - 1 + 1) v0 (.cloned (List.replicate (n - 1) x)) w = r at hr' ho' hfr'
      rcases r with ⟨v1, it1, w1, ok⟩
      simp only at hr' ho' hfr'
      cases ok with
      | false =>
        simp only [Bool.false_eq_true, ↓reduceIte]
        have h1 := ho'.drop_held hd x
        have h2 := dropVec_own hd hr' (dropElem c w1 x).1 h1
        exact ⟨[], ins', by simp, fun _ => rfl, by simpa using h2.2, by
          simp only [dropVec, dropAll_nextId]; rw [(dropElem_evs c w1 x).2.2]; exact hfr'⟩
      | true =>
        simp only [↓reduceIte]
        obtain ⟨ys2, hr2, ho2⟩ := push_own hc hd hr' x w1 ho'
        have hn2 := push_nextId hc hr' x w1
        by_cases hp : (push c v1 x w1).2.2.isSome = true
        · simp only [hp, ↓reduceIte]
          exact ⟨ys2, ins', fun v' hv' => by simp at hv'; subst hv'; exact hr2, by simp, by simpa using ho2, by rw [hn2]; exact hfr'⟩
        · simp only [hp, Bool.false_eq_true, ↓reduceIte]
          have h2 := dropVec_own hd hr2 (push c v1 x w1).2.1 ho2
          exact ⟨[], ins', by simp, fun _ => rfl, by simpa using h2.2, by simp only [dropVec, dropAll_nextId]; rw [hn2]; exact hfr'⟩

/-- the pushes of `vec![in b; a, b, c]`: the elements in order, up to a refused `push` -/
theorem vmacroList_spec {c : Cfg} (hc : CfgOK c) (N : Nat) :
    ∀ (es : List Elem) (v : VS) (ys : List Elem) (w : W), RepB c v ys →
      ∃ (j : Nat) (v' : VS) (w' : W) (r : Option (List Elem)), vmacroList c es v w = (v', w', r) ∧ j ≤ es.length ∧
        RepB c v' (ys ++ es.take j) ∧ w'.bad = w.bad ∧ (r = none → j = es.length ∧ w' = w) ∧
        (∀ rest, r = some rest → ∃ e, es.drop j = e :: rest ∧ w'.evs = w.evs ++ dropEvs c [e]) ∧
        (GrowOK c N → ys.length + es.length ≤ N → r = none) := by
  intro es
  induction es with
  | nil =>
    intro v ys w hr
    exact ⟨0, v, w, none, rfl, Nat.le_refl _, by simpa using hr, rfl, fun _ => ⟨rfl, rfl⟩, by simp, fun _ _ => rfl⟩
  | cons e es ih =>
    intro v ys w hr
    rcases push_spec hc hr e w with ⟨v1, hpush, hr1⟩ | ⟨hpush, hfull, hres⟩
    · obtain ⟨j, v', w', r, hrun, hj, hrep, hb, hnone, hsome, hgood⟩ := ih v1 (ys ++ [e]) w hr1
      refine ⟨j + 1, v', w', r, by simp only [vmacroList, hpush]; exact hrun, by simp; omega, by simpa [List.append_assoc] using hrep, hb,
        fun h => by obtain ⟨h1, h2⟩ := hnone h; exact ⟨by simp [h1], h2⟩, fun rest h => by simpa using hsome rest h,
        fun hg hN => hgood hg (by simp at hN ⊢; omega)⟩
    · refine ⟨0, v, (dropElem c w e).1, some es, by simp only [vmacroList, hpush], Nat.zero_le _, by simpa using hr,
        (dropElem_evs c w e).2.1, by simp, fun rest h => ⟨e, by simp at h; simp [h], dropElem_evs' c w e⟩, ?_⟩
      intro hg hN
      exfalso
      have := hr.len
      exact rawReserve_grow hc hg hr.bufOK (by rw [hfull]; exact Nat.le_refl _) (by simp at hN; omega) hres

/-- `vec![in b; a, b, c]` when the arena serves the growth: the vector of the listed elements, no
other effect -/
theorem vmacroListOp_spec {c : Cfg} (hc : CfgOK c) (N : Nat) (es : List Elem) (w : W) (hg : GrowOK c N) (hN : es.length ≤ N) :
    ∃ v', vmacroListOp c es w = (some v', w, []) ∧ RepB c v' es := by
  obtain ⟨j, v', w', r, hrun, hj, hrep, hb, hnone, hsome, hgood⟩ := vmacroList_spec hc N es newVec [] w (newVec_rep c)
  have hr := hgood hg (by simpa using hN)
  subst hr
  obtain ⟨hjl, hw⟩ := hnone rfl
  subst hjl; subst hw
  unfold vmacroListOp
  rw [hrun]
  simp only [List.take_length, List.nil_append] at hrep
  exact ⟨v', rfl, hrep⟩

/-- `vec![in b; a, b, c]` on every path (a refused `push` included): the values are owned by the new
vector; or the one whose `push` panicked and the ones already pushed were dropped exactly once and
the values of the expressions that were never evaluated are still the caller's -/
theorem vmacroListOp_own {c : Cfg} {ins held : List Nat} (hc : CfgOK c) (hd : c.needsDrop = true) (es : List Elem) (w : W)
    (ho : Own ins [] w.evs (ids es ++ held)) :
    ∃ ys, (∀ v', (vmacroListOp c es w).1 = some v' → RepB c v' ys) ∧ ((vmacroListOp c es w).1 = none → ys = []) ∧
      Own ins ys (vmacroListOp c es w).2.1.evs (ids (vmacroListOp c es w).2.2 ++ held) := by
  obtain ⟨j, v', w', r, hrun, hj, hrep, hb, hnone, hsome, _⟩ := vmacroList_spec hc 0 es newVec [] w (newVec_rep c)
  unfold vmacroListOp
  rw [hrun]
  simp only [List.nil_append] at hrep
  cases r with
  | none =>
    obtain ⟨hjl, hw⟩ := hnone rfl
    subst hjl; subst hw
    simp only [List.take_length] at hrep
    refine ⟨es, fun v'' hv => by simp at hv; subst hv; exact hrep, by simp, ?_⟩
    apply ho.of_count
    intro a; simp only [ids_nil, List.nil_append, List.count_nil, List.count_append]; omega
  | some rest =>
    obtain ⟨e, hdrop, hev⟩ := hsome rest rfl
    refine ⟨[], by simp, fun _ => rfl, ?_⟩
    simp only
    rw [dropVec_own_evs hrep, hev]
    apply ho.of_count
    intro a
    have h1 := count_take_drop es j a
    rw [hdrop] at h1
    simp only [evDrops_append, evMoved_append, evDrops_dropEvs c hd, evMoved_dropEvs, ids_nil, ids_cons, List.count_nil,
      List.count_append, List.count_cons] at h1 ⊢
    omega

end Bump.V
