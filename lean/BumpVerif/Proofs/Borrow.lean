import BumpVerif.Model.Borrow
/-!
# Lemmas about the loan-liveness checker (`Model/Borrow.lean`)

Rejection is stable under arbitrary context: once a variable holds a loan on the arena, a later
statement whose access conflicts with the loan, followed by a later use of the variable, makes
every program containing that pattern fail, whatever surrounds it.  Acceptance is shown for the
programs that only take shared access (`benign`).
-/
namespace Bump.Borrow
open Bump.Sig

/-- the program is rejected from state `σ` -/
def Rej (t : Sigs) (σ : State) (p : List Stmt) : Prop := (go t σ p).isSome = true

theorem rej_cons {t : Sigs} {σ : State} {s : Stmt} {rest : List Stmt}
    (h : check t σ s rest = none → Rej t (update t σ s) rest) : Rej t σ (s :: rest) := by
  unfold Rej
  rw [go]
  split
  · rfl
  · next hc => exact h hc

theorem rej_of_check {t : Sigs} {σ : State} {s : Stmt} {rest : List Stmt}
    (h : (check t σ s rest).isSome = true) : Rej t σ (s :: rest) := by
  apply rej_cons
  intro hc
  rw [hc] at h
  cases h

/-- a rejected suffix stays rejected behind any prefix -/
theorem rej_append {t : Sigs} {q : List Stmt} (h : ∀ σ, Rej t σ q) :
    ∀ (pre : List Stmt) (σ : State), Rej t σ (pre ++ q)
  | [], σ => h σ
  | s :: pre, σ => by
    rw [List.cons_append]
    exact rej_cons (fun _ => rej_append h pre _)

theorem accepts_false_of_rej {t : Sigs} {p : Program} (h : Rej t State.init p) :
    accepts t p = false := by
  unfold accepts run
  unfold Rej at h
  cases hg : go t State.init p with
  | none => rw [hg] at h; cases h
  | some e => rfl

/-! ### `find`, `markMoved`, `bind` -/

theorem find_cons_ne {vars : List (Var × Info)} {x y : Var} {i : Info} (h : y ≠ x) :
    find ((y, i) :: vars) x = find vars x := by
  simp [find, h]

theorem find_cons_eq {vars : List (Var × Info)} {x : Var} {i : Info} :
    find ((x, i) :: vars) x = some i := by
  simp [find]

theorem find_markMoved (v x : Var) : ∀ (vars : List (Var × Info)),
    find (markMoved v vars) x =
      (find vars x).map (fun i => if x = v then { i with moved := true } else i)
  | [] => rfl
  | (y, i) :: rest => by
    unfold markMoved
    by_cases hyv : y = v
    · subst hyv
      by_cases hyx : y = x
      · subst hyx; simp [find]
      · simp only [if_true]
        rw [find_cons_ne hyx, find_cons_ne hyx]
        exact find_markMoved y x rest
    · by_cases hyx : y = x
      · subst hyx; simp [find, hyv]
      · simp only [hyv, if_false]
        rw [find_cons_ne hyx, find_cons_ne hyx]
        exact find_markMoved v x rest

theorem mem_of_find {x : Var} {i : Info} : ∀ {vars : List (Var × Info)},
    find vars x = some i → (x, i) ∈ vars
  | [], h => by cases h
  | (y, j) :: rest, h => by
    by_cases hyx : y = x
    · subst hyx
      rw [find_cons_eq] at h
      cases h
      exact List.mem_cons_self
    · rw [find_cons_ne hyx] at h
      exact List.mem_cons_of_mem _ (mem_of_find h)

theorem find_isSome_of_mem {x : Var} {i : Info} : ∀ {vars : List (Var × Info)},
    (x, i) ∈ vars → (find vars x).isSome = true
  | [], h => by cases h
  | (y, j) :: rest, h => by
    by_cases hyx : y = x
    · subst hyx; rw [find_cons_eq]; rfl
    · rw [find_cons_ne hyx]
      cases h with
      | head => exact absurd rfl hyx
      | tail _ h' => exact find_isSome_of_mem h'

/-! ### what `check = none` gives -/

theorem check_none_wf {t : Sigs} {σ : State} {s : Stmt} {rest : List Stmt}
    (h : check t σ s rest = none) : wf t σ s = none := by
  unfold check at h
  cases hw : wf t σ s with
  | none => rfl
  | some e => rw [hw] at h; cases h

theorem check_none_other {t : Sigs} {σ : State} {s : Stmt} {rest : List Stmt}
    (h : check t σ s rest = none) : other σ rest s = none := by
  unfold check at h
  rw [check_none_wf h] at h
  cases ho : other σ rest s with
  | none => rfl
  | some e => rw [ho] at h; cases h

theorem check_none_access {t : Sigs} {σ : State} {s : Stmt} {rest : List Stmt} {a : Access}
    (h : check t σ s rest = none) (ha : access t s = some a) : arenaErr σ rest a = none := by
  have h1 := check_none_wf h
  have h2 := check_none_other h
  unfold check at h
  rw [h1, h2, ha] at h
  exact h

theorem needFresh_none {σ : State} {x : Var} (h : needFresh σ x = none) : find σ.vars x = none := by
  unfold needFresh at h
  cases hf : find σ.vars x with
  | none => rfl
  | some i => rw [hf] at h; cases h

theorem needVar_none {σ : State} {x : Var} (h : needVar σ x = none) :
    ∃ i, find σ.vars x = some i ∧ i.moved = false := by
  unfold needVar at h
  cases hf : find σ.vars x with
  | none => rw [hf] at h; cases h
  | some i =>
    rw [hf] at h
    refine ⟨i, rfl, ?_⟩
    cases hm : i.moved with
    | false => rfl
    | true => simp [hm] at h

theorem needVar_moved {σ : State} {x : Var} {i : Info} (hf : find σ.vars x = some i)
    (hm : i.moved = true) : needVar σ x = some .E0382 := by
  unfold needVar
  rw [hf]
  simp [hm]

/-- a bound variable is different from a variable that passes the freshness test -/
theorem ne_of_fresh {σ : State} {x y : Var} {i : Info} (hx : find σ.vars x = some i)
    (hy : needFresh σ y = none) : y ≠ x := by
  intro h
  subst h
  rw [needFresh_none hy] at hx
  cases hx

/-! ### Lemma A: a bound variable stays bound, keeps its loan, and is never un-moved -/

structure Keeps (i i' : Info) : Prop where
  loan : i'.loan = i.loan
  src : i'.src = i.src
  glue : i'.glue = i.glue
  moved : i.moved = true → i'.moved = true

theorem Keeps.refl (i : Info) : Keeps i i := ⟨rfl, rfl, rfl, id⟩

theorem keeps_markMoved {vars : List (Var × Info)} {x v : Var} {i : Info}
    (hx : find vars x = some i) : ∃ i', find (markMoved v vars) x = some i' ∧ Keeps i i' := by
  rw [find_markMoved, hx]
  by_cases hxv : x = v
  · exact ⟨{ i with moved := true }, by simp [hxv], ⟨rfl, rfl, rfl, fun _ => rfl⟩⟩
  · exact ⟨i, by simp [hxv], Keeps.refl i⟩

theorem update_keeps {t : Sigs} {σ : State} {s : Stmt} {rest : List Stmt} {x : Var} {i : Info}
    (hc : check t σ s rest = none) (hx : find σ.vars x = some i) :
    ∃ i', find (update t σ s).vars x = some i' ∧ Keeps i i' := by
  have hw := check_none_wf hc
  cases s with
  | call y m src =>
    cases y with
    | none => exact ⟨i, hx, Keeps.refl i⟩
    | some y =>
      simp only [wf] at hw
      simp only [update]
      cases hl : lookup t m with
      | none => rw [hl] at hw; cases hw
      | some sg =>
        rw [hl] at hw
        simp only at hw ⊢
        cases hn : needFresh σ y with
        | some e => rw [hn] at hw; cases hw
        | none =>
          have hne := ne_of_fresh hx hn
          refine ⟨i, ?_, Keeps.refl i⟩
          unfold bind
          simp only
          rw [find_cons_ne hne]
          exact hx
  | derive y m v =>
    simp only [wf] at hw
    simp only [update]
    cases hl : lookup t m with
    | none => rw [hl] at hw; cases hw
    | some sg =>
      rw [hl] at hw
      simp only at hw ⊢
      cases hn : needFresh σ y with
      | some e => rw [hn] at hw; cases hw
      | none =>
        have hne := ne_of_fresh hx hn
        cases hv : find σ.vars v with
        | none => exact ⟨i, hx, Keeps.refl i⟩
        | some iv =>
          simp only
          unfold bind
          simp only
          rw [find_cons_ne hne]
          by_cases hr : (sg.recv == Recv.val) = true
          · simp only [hr, if_true]
            exact keeps_markMoved hx
          · simp only [hr]
            exact ⟨i, hx, Keeps.refl i⟩
  | use v => exact ⟨i, hx, Keeps.refl i⟩
  | dropVar v =>
    simp only [update]
    exact keeps_markMoved hx
  | newSrc s =>
    simp only [wf] at hw
    have hne := ne_of_fresh hx hw
    refine ⟨i, ?_, Keeps.refl i⟩
    simp only [update, bind]
    rw [find_cons_ne hne]
    exact hx
  | moveArena => exact ⟨i, hx, Keeps.refl i⟩
  | endArena how => exact ⟨i, hx, Keeps.refl i⟩
  | ret v => exact ⟨i, hx, Keeps.refl i⟩

/-! ### Lemma B: a moved variable cannot be used again -/

theorem moved_use_rej {t : Sigs} {x : Var} {l' : List Stmt} :
    ∀ (l : List Stmt) (σ : State) (i : Info), find σ.vars x = some i → i.moved = true →
      Rej t σ (l ++ .use x :: l')
  | [], σ, i, hf, hm => by
    apply rej_of_check
    unfold check
    simp only [wf, needVar_moved hf hm]
    rfl
  | s :: l, σ, i, hf, hm => by
    rw [List.cons_append]
    apply rej_cons
    intro hc
    obtain ⟨i', hf', hk⟩ := update_keeps hc hf
    exact moved_use_rej l _ i' hf' (hk.moved hm)

/-! ### live loans and conflicting accesses -/

theorem usedLater_append_use (x : Var) (post post' : List Stmt) :
    usedLater x (post ++ .use x :: post') = true := by
  unfold usedLater
  rw [List.any_append, List.any_cons]
  simp [mentions]

theorem liveLoan_of_find {x : Var} {i : Info} {k : LoanKind} {rest : List Stmt} {g : Bool} :
    ∀ {vars : List (Var × Info)}, find vars x = some i → i.loan = some k → i.live x rest g = true →
      liveLoan vars rest k g = true := by
  intro vars hf hl hlive
  have hmem := mem_of_find hf
  unfold liveLoan
  rw [List.any_eq_true]
  exact ⟨(x, i), hmem, by simp [hl, hlive]⟩

def conflicts : Access → LoanKind → Bool
  | .shared, .shared => false
  | _, _ => true

theorem arenaErr_conflict {σ : State} {rest : List Stmt} {a : Access} {k : LoanKind}
    (hl : liveLoan σ.vars rest k a.glueCounts = true) (hc : conflicts a k = true) :
    (arenaErr σ rest a).isSome = true := by
  unfold arenaErr
  cases hal : σ.arenaAlive with
  | false => rfl
  | true =>
    cases a <;> cases k <;> simp_all [conflicts] <;> (split <;> simp)

theorem check_conflict {t : Sigs} {σ : State} {c : Stmt} {rest : List Stmt} {a : Access}
    {k : LoanKind} (ha : access t c = some a) (hc : conflicts a k = true)
    (hl : liveLoan σ.vars rest k a.glueCounts = true) : (check t σ c rest).isSome = true := by
  unfold check
  split
  · rfl
  · split
    · rfl
    · rw [ha]
      exact arenaErr_conflict hl hc

/-- Lemma C: a variable holding a loan, then (after anything) a conflicting access, then (after
anything) a use of the variable: rejected. -/
theorem conflict_rej {t : Sigs} {x : Var} {c : Stmt} {a : Access} {k : LoanKind}
    {post post' : List Stmt} (ha : access t c = some a) (hc : conflicts a k = true) :
    ∀ (mid : List Stmt) (σ : State) (i : Info), find σ.vars x = some i → i.loan = some k →
      Rej t σ (mid ++ c :: (post ++ .use x :: post'))
  | [], σ, i, hf, hl => by
    rw [List.nil_append]
    cases hm : i.moved with
    | true =>
      apply rej_cons
      intro hck
      obtain ⟨i', hf', hk⟩ := update_keeps hck hf
      exact moved_use_rej post _ i' hf' (hk.moved hm)
    | false =>
      apply rej_of_check
      apply check_conflict ha hc
      apply liveLoan_of_find hf hl
      unfold Info.live
      rw [hm, usedLater_append_use]
      simp
  | s :: mid, σ, i, hf, hl => by
    rw [List.cons_append]
    apply rej_cons
    intro hck
    obtain ⟨i', hf', hk⟩ := update_keeps hck hf
    exact conflict_rej ha hc mid _ i' hf' (hk.loan.trans hl)

/-! ### holders -/

/-- the result of `m` holds a loan of kind `k` on the arena -/
def Holder (t : Sigs) (m : MId) (k : LoanKind) : Prop :=
  ∃ sg, lookup t m = some sg ∧ loanOf sg = some k

/-- after `let x = m(..)` for a holder `m`, `x` is bound with that loan -/
theorem holder_bound {t : Sigs} {m : MId} {k : LoanKind} {σ : State} {x : Var} {src : Option Var}
    (hm : Holder t m k) :
    ∃ i, find (update t σ (.call (some x) m src)).vars x = some i ∧ i.loan = some k ∧ i.moved = false := by
  obtain ⟨sg, hl, hk⟩ := hm
  simp only [update, hl, bind]
  exact ⟨_, find_cons_eq, hk, rfl⟩

/-- **Core rejection pattern.**  `let x = m(..)` for a holder, later an access that conflicts
with the loan, later a use of `x`: rejected in every context. -/
theorem holder_conflict_rej {t : Sigs} {m : MId} {k : LoanKind} {c : Stmt} {a : Access}
    (hm : Holder t m k) (ha : access t c = some a) (hc : conflicts a k = true)
    (pre mid post post' : List Stmt) (x : Var) (src : Option Var) :
    accepts t (pre ++ .call (some x) m src :: (mid ++ c :: (post ++ .use x :: post'))) = false := by
  apply accepts_false_of_rej
  apply rej_append
  intro σ
  apply rej_cons
  intro _
  obtain ⟨i, hf, hl, _⟩ := holder_bound (σ := σ) (x := x) (src := src) hm
  exact conflict_rej ha hc mid _ i hf hl

/-! ### derived values inherit the loan -/

/-- the result of `d` applied to a value obtained from the arena still carries the arena -/
def Carrier (t : Sigs) (d : MId) : Prop :=
  ∃ sg, lookup t d = some sg ∧ (sg.retRecv || sg.retArena) = true

theorem derive_bound {t : Sigs} {σ : State} {d : MId} {x y : Var} {i : Info}
    (hd : Carrier t d) (hx : find σ.vars x = some i) :
    ∃ j, find (update t σ (.derive y d x)).vars y = some j ∧ j.loan = i.loan := by
  obtain ⟨sg, hl, hcar⟩ := hd
  simp only [update, hl, hx, bind, hcar, if_true]
  exact ⟨_, find_cons_eq, rfl⟩

theorem derived_conflict_rej_aux {t : Sigs} {d : MId} {x y : Var} {c : Stmt} {a : Access}
    {k : LoanKind} {mid2 post post' : List Stmt} (hd : Carrier t d) (ha : access t c = some a)
    (hc : conflicts a k = true) :
    ∀ (mid1 : List Stmt) (σ : State) (i : Info), find σ.vars x = some i → i.loan = some k →
      Rej t σ (mid1 ++ .derive y d x :: (mid2 ++ c :: (post ++ .use y :: post')))
  | [], σ, i, hf, hl => by
    rw [List.nil_append]
    apply rej_cons
    intro _
    obtain ⟨j, hj, hjl⟩ := derive_bound (y := y) hd hf
    exact conflict_rej ha hc mid2 _ j hj (hjl.trans hl)
  | s :: mid1, σ, i, hf, hl => by
    rw [List.cons_append]
    apply rej_cons
    intro hck
    obtain ⟨i', hf', hk⟩ := update_keeps hck hf
    exact derived_conflict_rej_aux hd ha hc mid1 _ i' hf' (hk.loan.trans hl)

/-- `let x = m(..)` (holder); `let y = x.d(..)` (carrier); a conflicting access; a use of `y`:
rejected in every context. -/
theorem derived_conflict_rej {t : Sigs} {m d : MId} {k : LoanKind} {c : Stmt} {a : Access}
    (hm : Holder t m k) (hd : Carrier t d) (ha : access t c = some a) (hc : conflicts a k = true)
    (pre mid1 mid2 post post' : List Stmt) (x y : Var) (src : Option Var) :
    accepts t (pre ++ .call (some x) m src ::
      (mid1 ++ .derive y d x :: (mid2 ++ c :: (post ++ .use y :: post')))) = false := by
  apply accepts_false_of_rej
  apply rej_append
  intro σ
  apply rej_cons
  intro _
  obtain ⟨i, hf, hl, _⟩ := holder_bound (σ := σ) (x := x) (src := src) hm
  exact derived_conflict_rej_aux hd ha hc mid1 _ i hf hl

/-! ### results with drop glue hold their loan to the end of the scope -/

/-- the statement moves `x` away (explicit drop / move, or a by-value method call on it) -/
def kills (t : Sigs) (x : Var) : Stmt → Bool
  | .dropVar v => v == x
  | .derive _ m v => v == x && (match lookup t m with | some s => s.recv == .val | none => false)
  | _ => false

theorem update_keeps_unmoved {t : Sigs} {σ : State} {s : Stmt} {rest : List Stmt} {x : Var}
    {i : Info} (hc : check t σ s rest = none) (hx : find σ.vars x = some i)
    (hk : kills t x s = false) :
    ∃ i', find (update t σ s).vars x = some i' ∧ Keeps i i' ∧ i'.moved = i.moved := by
  have hw := check_none_wf hc
  cases s with
  | call y m src =>
    cases y with
    | none => exact ⟨i, hx, Keeps.refl i, rfl⟩
    | some y =>
      simp only [wf] at hw
      simp only [update]
      cases hl : lookup t m with
      | none => rw [hl] at hw; cases hw
      | some sg =>
        rw [hl] at hw
        simp only at hw ⊢
        cases hn : needFresh σ y with
        | some e => rw [hn] at hw; cases hw
        | none =>
          have hne := ne_of_fresh hx hn
          refine ⟨i, ?_, Keeps.refl i, rfl⟩
          unfold bind
          simp only
          rw [find_cons_ne hne]
          exact hx
  | derive y m v =>
    simp only [wf] at hw
    simp only [update]
    cases hl : lookup t m with
    | none => rw [hl] at hw; cases hw
    | some sg =>
      rw [hl] at hw
      simp only at hw ⊢
      cases hn : needFresh σ y with
      | some e => rw [hn] at hw; cases hw
      | none =>
        have hne := ne_of_fresh hx hn
        cases hv : find σ.vars v with
        | none => exact ⟨i, hx, Keeps.refl i, rfl⟩
        | some iv =>
          simp only
          unfold bind
          simp only
          rw [find_cons_ne hne]
          by_cases hr : (sg.recv == Recv.val) = true
          · simp only [hr, if_true]
            have hvx : ¬ v = x := by
              intro hvx
              simp [kills, hvx, hl, hr] at hk
            rw [find_markMoved, hx]
            have : ¬ x = v := fun h => hvx h.symm
            exact ⟨i, by simp [this], Keeps.refl i, rfl⟩
          · simp only [hr]
            exact ⟨i, hx, Keeps.refl i, rfl⟩
  | use v => exact ⟨i, hx, Keeps.refl i, rfl⟩
  | dropVar v =>
    simp only [update]
    have hvx : ¬ x = v := by
      intro hxv
      simp [kills, hxv] at hk
    rw [find_markMoved, hx]
    exact ⟨i, by simp [hvx], Keeps.refl i, rfl⟩
  | newSrc s =>
    simp only [wf] at hw
    have hne := ne_of_fresh hx hw
    refine ⟨i, ?_, Keeps.refl i, rfl⟩
    simp only [update, bind]
    rw [find_cons_ne hne]
    exact hx
  | moveArena => exact ⟨i, hx, Keeps.refl i, rfl⟩
  | endArena how => exact ⟨i, hx, Keeps.refl i, rfl⟩
  | ret v => exact ⟨i, hx, Keeps.refl i, rfl⟩

theorem glue_conflict_rej_aux {t : Sigs} {x : Var} {c : Stmt} {a : Access} {k : LoanKind}
    {post : List Stmt} (ha : access t c = some a) (hc : conflicts a k = true)
    (hgc : a.glueCounts = true) :
    ∀ (mid : List Stmt) (σ : State) (i : Info), find σ.vars x = some i → i.loan = some k →
      i.glue = true → i.moved = false → mid.all (fun s => !kills t x s) = true →
      Rej t σ (mid ++ c :: post)
  | [], σ, i, hf, hl, hg, hm, _ => by
    rw [List.nil_append]
    apply rej_of_check
    apply check_conflict ha hc
    apply liveLoan_of_find hf hl
    unfold Info.live
    rw [hm, hg, hgc]
    rfl
  | s :: mid, σ, i, hf, hl, hg, hm, hnk => by
    rw [List.cons_append]
    apply rej_cons
    intro hck
    rw [List.all_cons, Bool.and_eq_true] at hnk
    have hks : kills t x s = false := by
      cases hh : kills t x s with
      | false => rfl
      | true => rw [hh] at hnk; exact absurd hnk.1 (by decide)
    obtain ⟨i', hf', hk, hmv⟩ := update_keeps_unmoved hck hf hks
    exact glue_conflict_rej_aux ha hc hgc mid _ i' hf' (hk.loan.trans hl) (hk.glue.trans hg)
      (hmv.trans hm) hnk.2

/-- the result of `m` holds a loan and has drop glue -/
def GlueHolder (t : Sigs) (m : MId) (k : LoanKind) : Prop :=
  ∃ sg, lookup t m = some sg ∧ loanOf sg = some k ∧ glueOf t sg = true

/-- a container obtained from the arena and not dropped or consumed before a conflicting access
(other than the end of the arena's own block, where an unused container is block-local):
rejected even without a later use (its destructor runs at the end of the scope). -/
theorem glue_conflict_rej {t : Sigs} {m : MId} {k : LoanKind} {c : Stmt} {a : Access}
    (hm : GlueHolder t m k) (ha : access t c = some a) (hc : conflicts a k = true)
    (hgc : a.glueCounts = true) (pre mid post : List Stmt) (x : Var) (src : Option Var)
    (hnk : mid.all (fun s => !kills t x s) = true) :
    accepts t (pre ++ .call (some x) m src :: (mid ++ c :: post)) = false := by
  apply accepts_false_of_rej
  apply rej_append
  intro σ
  apply rej_cons
  intro _
  obtain ⟨sg, hl, hk, hgl⟩ := hm
  have hf : find (update t σ (.call (some x) m src)).vars x =
      some ⟨loanOf sg, if sg.retOther then src else none, glueOf t sg, false⟩ := by
    simp only [update, hl, bind]
    exact find_cons_eq
  exact glue_conflict_rej_aux ha hc hgc mid _ _ hf hk hgl rfl hnk

/-! ### returning a value that holds a loan on a local arena -/

theorem ret_rej_aux {t : Sigs} {x : Var} {k : LoanKind} {post : List Stmt} :
    ∀ (mid : List Stmt) (σ : State) (i : Info), find σ.vars x = some i → i.loan = some k →
      Rej t σ (mid ++ .ret x :: post)
  | [], σ, i, hf, hl => by
    rw [List.nil_append]
    apply rej_of_check
    unfold check
    split
    · rfl
    · simp only [other, hf, hl, Option.isSome_some, Bool.true_or, if_true]
  | s :: mid, σ, i, hf, hl => by
    rw [List.cons_append]
    apply rej_cons
    intro hck
    obtain ⟨i', hf', hk⟩ := update_keeps hck hf
    exact ret_rej_aux mid _ i' hf' (hk.loan.trans hl)

theorem ret_rej {t : Sigs} {m : MId} {k : LoanKind} (hm : Holder t m k)
    (pre mid post : List Stmt) (x : Var) (src : Option Var) :
    accepts t (pre ++ .call (some x) m src :: (mid ++ .ret x :: post)) = false := by
  apply accepts_false_of_rej
  apply rej_append
  intro σ
  apply rej_cons
  intro _
  obtain ⟨i, hf, hl, _⟩ := holder_bound (σ := σ) (x := x) (src := src) hm
  exact ret_rej_aux mid _ i hf hl

end Bump.Borrow
