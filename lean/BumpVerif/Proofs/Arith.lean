import BumpVerif.Model.Basic
/-! Arithmetic lemmas for the machine-arithmetic primitives (core Lean only). -/
namespace Bump

theorem roundDownTo_le (n d : Nat) : roundDownTo n d ≤ n := Nat.div_mul_le_self n d
theorem roundDownTo_dvd (n d : Nat) : d ∣ roundDownTo n d := Nat.dvd_mul_left d (n / d)
theorem roundDownTo_gt (n d : Nat) (hd : 0 < d) : n < roundDownTo n d + d := by
  unfold roundDownTo
  have := Nat.div_add_mod n d
  have := Nat.mod_lt n hd
  rw [Nat.mul_comm]; omega
theorem roundDownTo_of_dvd {n d : Nat} (h : d ∣ n) : roundDownTo n d = n := Nat.div_mul_cancel h
theorem sub_mod_eq_roundDownTo (n d : Nat) : n - n % d = roundDownTo n d := by
  unfold roundDownTo
  have := Nat.div_add_mod n d
  rw [Nat.mul_comm]; omega

/-- greatest multiple below -/
theorem le_roundDownTo {n d m : Nat} (hd : 0 < d) (hm : d ∣ m) (hle : m ≤ n) : m ≤ roundDownTo n d := by
  obtain ⟨k, rfl⟩ := hm
  unfold roundDownTo
  have : k ≤ n / d := by
    rw [Nat.le_div_iff_mul_le hd, Nat.mul_comm]; exact hle
  calc d * k = k * d := Nat.mul_comm ..
    _ ≤ n / d * d := Nat.mul_le_mul_right d this

theorem roundUpTo_some {n d r : Nat} (hd : 0 < d) (h : roundUpTo n d = some r) :
    n ≤ r ∧ r < n + d ∧ d ∣ r ∧ n + (d - 1) < USIZE := by
  unfold roundUpTo at h
  split at h
  · rename_i hlt
    injection h with h; subst h
    have h1 := Nat.div_add_mod (n + (d - 1)) d
    have h2 := Nat.mod_lt (n + (d - 1)) hd
    refine ⟨?_, ?_, Nat.dvd_mul_left d _, hlt⟩
    · rw [Nat.mul_comm]; omega
    · rw [Nat.mul_comm]; omega
  · cases h

theorem roundUpTo_isSome {n d : Nat} (h : n + (d - 1) < USIZE) : ∃ r, roundUpTo n d = some r := by
  unfold roundUpTo; rw [if_pos h]; exact ⟨_, rfl⟩

/-- least multiple above -/
theorem roundUpTo_le {n d m r : Nat} (hd : 0 < d) (h : roundUpTo n d = some r) (hm : d ∣ m) (hle : n ≤ m) :
    r ≤ m := by
  unfold roundUpTo at h
  split at h
  · injection h with h; subst h
    obtain ⟨k, rfl⟩ := hm
    have : (n + (d - 1)) / d ≤ k := by
      apply Nat.le_of_lt_succ
      rw [Nat.div_lt_iff_lt_mul hd, Nat.succ_mul, Nat.mul_comm k d]
      omega
    calc (n + (d - 1)) / d * d ≤ k * d := Nat.mul_le_mul_right d this
      _ = d * k := Nat.mul_comm ..
  · cases h

theorem roundUpTo_of_dvd {n d : Nat} (hd : 0 < d) (hdv : d ∣ n) (hlt : n + (d - 1) < USIZE) :
    roundUpTo n d = some n := by
  obtain ⟨r, hr⟩ := roundUpTo_isSome hlt
  obtain ⟨h1, _, _, _⟩ := roundUpTo_some hd hr
  have := roundUpTo_le hd hr hdv (Nat.le_refl n)
  rw [hr]; congr 1; omega

theorem wsub_eq {a b : Nat} (hb : b ≤ a) (ha : a < USIZE) : wsub a b = a - b := by
  unfold wsub
  have : a + USIZE - b = (a - b) + USIZE := by omega
  rw [this, Nat.add_mod_right, Nat.mod_eq_of_lt (by omega)]

/-- a wrap is visible: the result lands far above any real address -/
theorem wsub_wrap {a b : Nat} (hb : a < b) (hbl : b < USIZE) : wsub a b = a + USIZE - b := by
  unfold wsub
  exact Nat.mod_eq_of_lt (by omega)

/-! ### powers of two -/

def IsPow2 (n : Nat) : Prop := ∃ k, n = 2 ^ k

theorem isPow2_iff {n : Nat} : isPow2 n = true ↔ IsPow2 n := by
  unfold isPow2 IsPow2
  constructor
  · intro h; exact ⟨_, by simpa using h⟩
  · rintro ⟨k, rfl⟩
    simp [Nat.log2_two_pow]

theorem IsPow2.pos {a : Nat} (ha : IsPow2 a) : 0 < a := by
  obtain ⟨i, rfl⟩ := ha; exact Nat.pow_pos (by omega)

theorem IsPow2.dvd_of_le {a b : Nat} (ha : IsPow2 a) (hb : IsPow2 b) (h : a ≤ b) : a ∣ b := by
  obtain ⟨i, rfl⟩ := ha; obtain ⟨j, rfl⟩ := hb
  have : i ≤ j := by
    apply Nat.le_of_not_lt; intro hlt
    have := Nat.pow_lt_pow_right (a := 2) (by omega) hlt
    omega
  exact Nat.pow_dvd_pow 2 this

theorem IsPow2.max {a b : Nat} (ha : IsPow2 a) (hb : IsPow2 b) : IsPow2 (max a b) := by
  rcases Nat.le_total a b with h | h
  · rw [Nat.max_eq_right h]; exact hb
  · rw [Nat.max_eq_left h]; exact ha

theorem isPow2_16 : IsPow2 16 := ⟨4, rfl⟩
theorem isPow2_4096 : IsPow2 4096 := ⟨12, rfl⟩

/-- the powers of two up to 16 -/
theorem IsPow2.le16 {m : Nat} (h : IsPow2 m) (hle : m ≤ 16) : m = 1 ∨ m = 2 ∨ m = 4 ∨ m = 8 ∨ m = 16 := by
  obtain ⟨k, rfl⟩ := h
  have hk : k ≤ 4 := by
    apply Nat.le_of_not_lt; intro hlt
    have := Nat.pow_le_pow_right (n := 2) (by omega) (show 5 ≤ k by omega)
    omega
  have : k = 0 ∨ k = 1 ∨ k = 2 ∨ k = 3 ∨ k = 4 := by omega
  rcases this with rfl | rfl | rfl | rfl | rfl <;> simp

theorem le_nextPow2 (n : Nat) : n ≤ nextPow2 n := by
  unfold nextPow2
  split
  · omega
  · have := @Nat.lt_log2_self (n - 1)
    omega

theorem nextPow2_isPow2 (n : Nat) : IsPow2 (nextPow2 n) := by
  unfold nextPow2; split
  · exact ⟨0, rfl⟩
  · exact ⟨_, rfl⟩

/-- `nextPow2 n < 2 n` for `n ≥ 1`: the result is the least power of two above -/
theorem nextPow2_lt_two_mul {n : Nat} (h : 1 ≤ n) : nextPow2 n < 2 * n + 1 := by
  unfold nextPow2
  split
  · omega
  · rename_i hn
    have hpos : n - 1 ≠ 0 := by omega
    have := Nat.log2_self_le hpos
    rw [Nat.pow_succ]; omega

theorem mod_eq_zero_of_dvd' {a b : Nat} (h : a ∣ b) : b % a = 0 := Nat.mod_eq_zero_of_dvd h

end Bump
