import BumpVerif.Model.Arena
import BumpVerif.Model.ArenaExt
/-!
Line-protocol driver for the arena family: reads the harness trace on stdin, replays every
operation on the model with the allocator answers the implementation observed, and prints a
`DIFF` line for every field in which model and implementation disagree.
-/
open Bump

def hexDigit (n : Nat) : Char := "0123456789abcdef".toList.getD n '0'

partial def toHexAux (n : Nat) (acc : List Char) : List Char :=
  if n < 16 then hexDigit n :: acc else toHexAux (n / 16) (hexDigit (n % 16) :: acc)

def toHex (n : Nat) : String := "0x" ++ String.ofList (toHexAux n [])

def hexVal (c : Char) : Option Nat :=
  if '0' ≤ c ∧ c ≤ '9' then some (c.toNat - '0'.toNat)
  else if 'a' ≤ c ∧ c ≤ 'f' then some (c.toNat - 'a'.toNat + 10)
  else none

def parseNat (s : String) : Option Nat :=
  if s.startsWith "0x" then
    (s.drop 2).toString.toList.foldl (fun acc c => match acc, hexVal c with
      | some a, some d => some (a * 16 + d)
      | _, _ => none) (some 0)
  else s.toNat?

def kv (toks : List String) (key : String) : Option String :=
  toks.findSome? fun t =>
    if t.startsWith (key ++ "=") then some (t.drop (key.length + 1)).toString else none

def kvNat (toks : List String) (key : String) : Option Nat := (kv toks key).bind parseNat

def optNatStr : Option Nat → String
  | none => "none"
  | some n => toString n

def evStr : Ev → String
  | .malloc sz al none => s!"m:{sz}:{al}:null"
  | .malloc sz al (some a) => s!"m:{sz}:{al}:{toHex a}"
  | .free a sz al => s!"f:{toHex a}:{sz}:{al}"

def listStr (xs : List String) : String := if xs.isEmpty then "-" else ",".intercalate xs

def resStr : Res → String
  | .ptr p => s!"ok {toHex p}"
  | .ptrIn p ps => s!"ok {toHex p} in={listStr (ps.map toHex)}"
  | .unit => "unit"
  | .err => "err"
  | .ierr ps => s!"ierr in={listStr (ps.map toHex)}"
  | .panic => "panic"
  | .bad w => if w == "cpanic" then "cpanic" else s!"bad:{w}"
  | .envBad => "envbad"

structure ObsT where
  cap : String
  ab : String
  abm : String
  lim : String
  chunks : String
  it : String

def obsOf (E : Nat) (a : Arena) : ObsT :=
  { cap := toString (chunkCapacity a E)
    ab := toString (a.allocatedBytes E)
    abm := toString (allocatedBytesIncludingMetadata a E)
    lim := optNatStr a.limit
    chunks := listStr (a.chunks.map fun c => s!"{toHex c.data}:{c.size}:{c.align}:{toHex c.ptr}")
    it := listStr ((iterChunks a).map fun (p, l) => s!"{toHex p}:{l}") }

def parseInner (s : String) : List Inner :=
  if s == "-" then [] else
  (s.splitOn "+").filterMap fun part =>
    match part.splitOn ":" with
    | [k, sz, al] =>
      match sz.toNat?, al.toNat? with
      | some sz, some al => some (if k == "k" then Inner.keep sz al else Inner.release sz al)
      | _, _ => none
    | _ => none

/-- answers observed by the implementation, from its EVT field -/
def parseAnswers (evt : String) : List (Option Nat) :=
  if evt == "-" then [] else
  (evt.splitOn ",").filterMap fun e =>
    match e.splitOn ":" with
    | ["m", _, _, a] => some (if a == "null" then none else parseNat a)
    | _ => none

def parseChunks (s : String) (headAb : Nat) : List Chunk :=
  if s == "-" then [] else
  let cs := (s.splitOn ",").filterMap fun c =>
    match c.splitOn ":" with
    | [d, sz, al, p] =>
      match parseNat d, sz.toNat?, al.toNat?, parseNat p with
      | some d, some sz, some al, some p => some (⟨d, sz, al, p, 0⟩ : Chunk)
      | _, _, _, _ => none
    | _ => none
  match cs with
  | [] => []
  | c :: rest => { c with ab := headAb } :: rest

inductive Cmd where
  | new (cap : Nat) (f : Bool)
  | op (o : Op)
  /-- `alloc_slice_try_fill_with` whose closure allocates in the arena (Model/ArenaExt.lean) -/
  | tfillIn (esz eal n : Nat) (errat : Option Nat) (inner : List Inner)
  /-- the arena reserves space (operation `o`), then user code panics: the space stays reserved -/
  | opThenPanic (o : Op)
  | drop
  | nop

def parseCmd (toks : List String) : Option Cmd := do
  let name ← toks.head?
  let n := fun k => kvNat toks k
  let b := fun k => (kv toks k) == some "1"
  match name with
  | "new" => some (.new (← n "cap") (b "f"))
  | "alloc" => some (.op (.alloc (← n "sz") (← n "al") (b "f")))
  | "sendalloc" => some (.op (.alloc (← n "sz") (← n "al") true))
  | "val" => some (.op (.alloc (← n "sz") (← n "al") (b "f")))
  | "atw" => some (.op (.atw (← n "sz") (← n "al") ((kv toks "ret") == some "ok") (parseInner ((kv toks "inner").getD "-")) (b "f")))
  | "slice" =>
    let kind ← n "kind"
    let esz ← n "esz"; let eal ← n "eal"; let cnt ← n "n"
    if kind ≤ 2 then some (.op (.alloc (esz * cnt) eal (b "f")))
    else some (.op (.array esz eal cnt (b "f")))
  | "tfill" =>
    match parseInner ((kv toks "inner").getD "-") with
    | [] => some (.op (.tfill (← n "esz") (← n "eal") (← n "n") (n "errat")))
    | inner => some (.tfillIn (← n "esz") (← n "eal") (← n "n") (n "errat") inner)
  | "pfill" =>
    let o := Op.array (← n "esz") (← n "eal") (← n "n") false
    match n "at" with
    | some i => if i < (← n "n") then some (.opThenPanic o) else some (.op o)
    | none => some (.op o)
  | "patw" => some (.opThenPanic (.alloc (← n "sz") (← n "al") (b "f")))
  | "aalloc" => some (.op (.aalloc (← n "sz") (← n "al")))
  | "afree" => some (.op (.afree (← n "p") (← n "sz") (← n "al")))
  | "agrow" => some (.op (.agrow (← n "p") (← n "osz") (← n "oal") (← n "nsz") (← n "nal") (b "z")))
  | "ashrink" => some (.op (.ashrink (← n "p") (← n "osz") (← n "oal") (← n "nsz") (← n "nal")))
  | "write" => some .nop
  | "reset" => some (.op .reset)
  | "limit" => some (.op (.limit (n "v")))
  | "drop" => some .drop
  | _ => none

structure DState where
  planIdx : Nat := 0
  M : Nat := 1
  E : Nat := 0
  arena : Option Arena := none
  lineNo : Nat := 0
  lines : Nat := 0
  diffs : Nat := 0
  kinds : List (String × Nat) := []

def bump (ks : List (String × Nat)) (k : String) : List (String × Nat) :=
  match ks with
  | [] => [(k, 1)]
  | (k', n) :: rest => if k' == k then (k', n + 1) :: rest else (k', n) :: bump rest k

def splitSections (line : String) : List String := (line.splitOn " | ").map (·.trimAscii.toString)

def sectionOf (secs : List String) (tag : String) : String :=
  match secs.find? (·.startsWith (tag ++ " ")) with
  | some s => (s.drop (tag.length + 1)).toString
  | none => ""

def processLine (st : DState) (line : String) : DState × List String :=
  let st := { st with lineNo := st.lineNo + 1 }
  let line := line.trimAscii.toString
  if line.isEmpty || line.startsWith "#" || line.startsWith "END" || line.startsWith "ORACLE" || line.startsWith "SUMMARY" then (st, [])
  else if line.startsWith "PLAN" then
    let toks := line.splitOn " "
    ({ st with planIdx := (kvNat toks "idx").getD 0, M := (kvNat toks "M").getD 1, E := (kvNat toks "static").getD 0, arena := none }, [])
  else
    let secs := splitSections line
    let opToks := (secs.headD "").splitOn " "
    let iRes := sectionOf secs "RES"
    let iEvt := sectionOf secs "EVT"
    let iObs := sectionOf secs "OBS"
    let obsToks := iObs.splitOn " "
    match parseCmd opToks with
    | none => ({ st with diffs := st.diffs + 1 }, [s!"DIFF plan={st.planIdx} line={st.lineNo} op={opToks.headD "?"} field=parse model=unparsable impl=-"])
    | some cmd =>
      let answers := parseAnswers iEvt
      -- run the model
      let (arena', res, evs, under, left) : Option Arena × Res × List Ev × Bool × Nat :=
        match cmd with
        | .new cap f =>
          let s0 : St := { a := ⟨st.M, [], none⟩, ans := answers }
          match newArena st.E st.M cap f s0 with
          | (s, .ok a) => (some a, .unit, s.evs, s.underflow, s.ans.length)
          | (s, .err) => (none, .err, s.evs, s.underflow, s.ans.length)
          | (s, .panic) => (none, .panic, s.evs, s.underflow, s.ans.length)
          | (s, .bad w) => (none, .bad w, s.evs, s.underflow, s.ans.length)
          | (s, .envBad) => (none, .envBad, s.evs, s.underflow, s.ans.length)
        | .nop => (st.arena, .unit, [], false, answers.length)
        | .drop =>
          match st.arena with
          | none => (none, .bad "drop without arena", [], false, 0)
          | some a =>
            let s := dropArena { a := a, ans := answers }
            (none, .unit, s.evs, s.underflow, s.ans.length)
        | .op o =>
          match st.arena with
          | none => (none, .bad "op without arena", [], false, 0)
          | some a =>
            let (s, r) := step st.E o { a := a, ans := answers }
            (some s.a, r, s.evs, s.underflow, s.ans.length)
        | .tfillIn esz eal cnt errat inner =>
          match st.arena with
          | none => (none, .bad "op without arena", [], false, 0)
          | some a =>
            let (s, r) := sliceTryFillIn st.E esz eal cnt errat inner { a := a, ans := answers }
            (some s.a, r, s.evs, s.underflow, s.ans.length)
        | .opThenPanic o =>
          match st.arena with
          | none => (none, .bad "op without arena", [], false, 0)
          | some a =>
            let (s, r) := step st.E o { a := a, ans := answers }
            -- a successful reservation followed by a panic in user code: reported as `cpanic`
            let r' := match r with
              | .ptr _ => Res.bad "cpanic"
              | other => other
            (some s.a, r', s.evs, s.underflow, s.ans.length)
      let mRes := resStr res
      let mEvt := listStr (evs.map evStr) ++ (if under then " env-underflow" else "") ++ (if left > 0 then " env-leftover" else "")
      let name := opToks.headD "?"
      let mk := fun (field m i : String) => s!"DIFF plan={st.planIdx} line={st.lineNo} op={name} field={field} model={m} impl={i}"
      let d1 := if mRes != iRes then [mk "res" mRes iRes] else []
      let d2 := if mEvt != iEvt then [mk "evt" mEvt iEvt] else []
      let d3 : List String :=
        match arena' with
        | none => if iObs != "none" then [mk "obs" "none" iObs] else []
        | some a =>
          let o := obsOf st.E a
          let cmp := fun (field m : String) =>
            let i := (kv obsToks field).getD "?"
            if m != i then [mk field m i] else []
          cmp "cap" o.cap ++ cmp "ab" o.ab ++ cmp "abm" o.abm ++ cmp "lim" o.lim ++ cmp "chunks" o.chunks ++ cmp "it" o.it
      let ds := d1 ++ d2 ++ d3
      -- resynchronise on the implementation's state if anything differed
      let arenaNext : Option Arena :=
        if ds.isEmpty then arena' else
        if iObs == "none" then none else
          let ab := (kvNat obsToks "ab").getD 0
          some ⟨st.M, parseChunks ((kv obsToks "chunks").getD "-") ab, kvNat obsToks "lim"⟩
      let kind := name ++ ":" ++ (mRes.splitOn " ").headD ""
      ({ st with arena := arenaNext, lines := st.lines + 1, diffs := st.diffs + ds.length, kinds := bump st.kinds kind }, ds)

partial def loop (h : IO.FS.Stream) (st : DState) : IO DState := do
  let line ← h.getLine
  if line.isEmpty then return st
  let (st', outs) := processLine st line
  for o in outs do IO.println o
  loop h st'

def main : IO Unit := do
  let st ← loop (← IO.getStdin) {}
  let ks := ",".intercalate (st.kinds.map fun (k, n) => s!"{k}={n}")
  IO.println s!"DRIVER lines={st.lines} diffs={st.diffs} kinds={ks}"
