import BumpVerif.Model.AutoTraits
import BumpVerif.Model.Borrow
import BumpVerif.Gen.Api
/-!
Evaluator of the C05 signature model (run with `lake env lean --run Driver/BorrowMain.lean`):
reads probe descriptions on stdin, prints the model's verdict for each, computed on the generated
table `Gen.Api.table`.

    PROG <id> <stmt> ; <stmt> ; …        →  PROG <id> accept | PROG <id> reject <Err>
        stmt:  call <x|-> <Owner#method> <src|->  |  derive <y> <Owner#method> <x>  |  use <x>
               drop <x>  |  src <s>  |  move  |  end drop|scope  |  ret <x>
    TRAIT <id> S <struct> <send01> <sync01>   (struct applied to parameters that all have that pair)
    TRAIT <id> REF <struct> | REFMUT <struct>  (parameter-free struct behind & / &mut)
                                         →  TRAIT <id> send=<0|1> sync=<0|1>
    TABLE                                →  GOOD <bool> and one STRUCT line per public struct
-/
open Bump.Sig Bump.Borrow

def parseMId (s : String) : Option MId :=
  match s.splitOn "#" with
  | [o, n] => some ⟨o, n⟩
  | _ => none

def parseOptVar (s : String) : Option (Option Var) :=
  if s == "-" then some none else s.toNat?.map some

def parseStmt (toks : List String) : Option Stmt :=
  match toks with
  | ["call", x, m, src] => do
    let x ← parseOptVar x
    let m ← parseMId m
    let src ← parseOptVar src
    pure (.call x m src)
  | ["derive", y, m, x] => do
    let y ← y.toNat?
    let m ← parseMId m
    let x ← x.toNat?
    pure (.derive y m x)
  | ["use", x] => x.toNat?.map .use
  | ["drop", x] => x.toNat?.map .dropVar
  | ["src", x] => x.toNat?.map .newSrc
  | ["move"] => some .moveArena
  | ["end", "drop"] => some (.endArena .dropCall)
  | ["end", "scope"] => some (.endArena .scopeEnd)
  | ["ret", x] => x.toNat?.map .ret
  | _ => none

def splitStmts (toks : List String) : List (List String) :=
  let rec go (cur : List String) (acc : List (List String)) : List String → List (List String)
    | [] => (if cur.isEmpty then acc else cur.reverse :: acc).reverse
    | ";" :: rest => go [] (if cur.isEmpty then acc else cur.reverse :: acc) rest
    | tk :: rest => go (tk :: cur) acc rest
  go [] [] toks

def errName : Err → String
  | .E0499 => "E0499" | .E0502 => "E0502" | .E0505 => "E0505" | .E0597 => "E0597"
  | .E0515 => "E0515" | .E0382 => "E0382" | .illFormed => "illFormed"

def b01 (b : Bool) : String := if b then "1" else "0"

def handle (line : String) : String :=
  let t := Gen.Api.table
  let toks := (line.splitOn " ").filter (· != "")
  match toks with
  | "PROG" :: id :: rest =>
    match (splitStmts rest).mapM parseStmt with
    | none => s!"PROG {id} parse-error"
    | some p =>
      match run t p with
      | none => s!"PROG {id} accept"
      | some e => s!"PROG {id} reject {errName e}"
  | ["TRAIT", id, "S", n, s, y] =>
    let p := (s == "1", y == "1")
    match t.struct? n with
    | none => s!"TRAIT {id} unknown-struct"
    | some _ => s!"TRAIT {id} send={b01 (structSend t n p)} sync={b01 (structSync t n p)}"
  | ["TRAIT", id, "REF", n] =>
    s!"TRAIT {id} send={b01 (isSend t [] (.ref (.adt n [])))} sync={b01 (isSync t [] (.ref (.adt n [])))}"
  | ["TRAIT", id, "REFMUT", n] =>
    s!"TRAIT {id} send={b01 (isSend t [] (.refMut (.adt n [])))} sync={b01 (isSync t [] (.refMut (.adt n [])))}"
  | ["TABLE"] =>
    let head := s!"GOOD {goodSigs t}"
    let rows := (t.structs.filter (·.isPub)).map (fun d =>
      s!"STRUCT {d.name} send={b01 (structSend t d.name (true, true))} sync={b01 (structSync t d.name (true, true))} shares={b01 (sharesArena t FUEL d.self)} glue={b01 (structNeedsDrop t d.name)} lifetimes={d.lifetimes.length}")
    "\n".intercalate (head :: rows)
  | [] => ""
  | _ => s!"? {line}"

partial def loop (h : IO.FS.Stream) (out : IO.FS.Stream) : IO Unit := do
  let line ← h.getLine
  if line.isEmpty then pure () else
    let r := handle (line.trimAscii.toString)
    if r != "" then out.putStrLn r
    loop h out

def main : IO Unit := do
  let i ← IO.getStdin
  let o ← IO.getStdout
  loop i o
