import BumpVerif.Model.Vec
/-!
Line-protocol driver of the Vec family: reads the trace written by `bvh_vec` on stdin, replays
every operation on the slot-machine model (`BumpVerif.Model.Vec`) and prints a `DIFF` line for
every field (`res`, `len`, `cap`, `ids`, `drops`, `moved`, `bad`) in which model and
implementation disagree.  Inputs the model cannot know come from the trace: the first id the
harness hands out in this call (`id0=`), the build profile (`ovf=`, `dbg=`), whether the arena
refused the call's allocation (`env=allocfail`).
-/
open Bump Bump.V

def kv (toks : List String) (key : String) : Option String :=
  toks.findSome? fun t =>
    if t.startsWith (key ++ "=") then some (t.drop (key.length + 1)).toString else none

def kvNat (toks : List String) (key : String) : Option Nat := (kv toks key).bind (·.toNat?)

def parseList (s : String) : List Nat :=
  if s == "-" || s.isEmpty then [] else (s.splitOn ",").filterMap (·.toNat?)

def parseBd (s : String) : Bd :=
  if s.startsWith "i:" then .inc ((s.drop 2).toString.toNat?.getD 0)
  else if s.startsWith "x:" then .exc ((s.drop 2).toString.toNat?.getD 0)
  else .unb

structure DState where
  planIdx : Nat := 0
  kind : String := "E"
  ovf : Bool := true
  dbg : Bool := true
  vars : List (Option VS) := []
  lineNo : Nat := 0
  lines : Nat := 0
  diffs : Nat := 0
  kinds : List (String × Nat) := []

def bumpK (ks : List (String × Nat)) (k : String) : List (String × Nat) :=
  match ks with
  | [] => [(k, 1)]
  | (k', n) :: rest => if k' == k then (k', n + 1) :: rest else (k', n) :: bumpK rest k

def showElem (kind : String) (e : Elem) : String := if kind == "Z" then "z" else s!"{e.id}:{e.val}"
def showElems (kind : String) (es : List Elem) : String := "[" ++ ",".intercalate (es.map (showElem kind)) ++ "]"
def showIds (kind : String) (ids : List Nat) : String :=
  "[" ++ ",".intercalate (ids.map fun i => if kind == "Z" then "z" else toString i) ++ "]"

def getV (vars : List (Option VS)) (j : Nat) : Option VS := (vars[j]?).join
def setV (vars : List (Option VS)) (j : Nat) (o : Option VS) : List (Option VS) := vars.set j o

def mkElems (id0 : Nat) (vals : List Nat) : List Elem :=
  (vals.zipIdx).map fun (x, k) => ⟨id0 + k, x⟩

def rOk (r : Option Unit) : String := if r.isSome then "ok" else "panic"

/-- one operation on the model: new variables, effects, result text -/
def runOp (kind : String) (c : Cfg) (toks : List String) (vars : List (Option VS)) (w : W) :
    Option (List (Option VS) × W × String) := do
  let name ← toks.head?
  let n := fun k => if k == "x" && kind == "Z" then 0 else (kvNat toks k).getD 0
  let j := n "v"
  let jw := n "w"
  let xs := (parseList ((kv toks "xs").getD "-")).map fun x => if kind == "Z" then 0 else x
  let ans : List Bool := match kv toks "ans" with
    | none => []
    | some "-" => []
    | some t => t.toList.map (· == '1')
  let ppanic := kvNat toks "ppanic"
  let ipanic := kvNat toks "ipanic"
  let forget := (kv toks "fin") == some "forget"
  let id0 := w.nextId
  let pred : Nat → Elem → Option Bool := fun k _ => if ppanic == some k then none else some (ans.getD k false)
  let items := fun (es : List Elem) => "items " ++ showElems kind es
  match name with
  | "new" => some (setV vars j (some newVec), w, "ok")
  | "with_cap" =>
    match withCapacity c (n "n") with
    | none => some (vars, w, "panic")
    | some v => some (setV vars j (some v), w, "ok")
  | "from_iter" | "collect_in" =>
    let args := mkElems id0 xs
    let w := { w with nextId := id0 + args.length }
    match fromIter c (.src ⟨args, n "hint", 0, 0, ipanic⟩) w with
    | (some v, w) => some (setV vars j (some v), w, "ok")
    | (none, w) => some (vars, w, "panic")
  | "vmacro_n" =>
    let x : Elem := ⟨id0, n "x"⟩
    let w := { w with nextId := id0 + 1 }
    match vmacroN c x (n "n") w with
    | (some v, w, _) => some (setV vars j (some v), w, "ok")
    | (none, w, _) => some (vars, w, "panic")
  | "vmacro_list" =>
    let args := mkElems id0 (xs.take 6)
    let w := { w with nextId := id0 + args.length }
    match vmacroListOp c args w with
    | (some v, w, _) => some (setV vars j (some v), w, "ok")
    -- the harness passes the values through an owning iterator, which drops the ones whose
    -- expression was never evaluated when the unwinding reaches it (after the vector)
    | (none, w, rest) => some (vars, (dropAll c rest w).1, "panic")
  | _ =>
    let v ← getV vars j
    match name with
    | "push" =>
      let (v, w, r) := push c v ⟨id0, n "x"⟩ { w with nextId := id0 + 1 }
      some (setV vars j (some v), w, rOk r)
    | "pop" =>
      let (v, w, r) := pop v w
      some (setV vars j (some v), w, match r with | some e => "some " ++ showElems kind [e] | none => "none")
    | "insert" =>
      let (v, w, r) := insert c v (n "i") ⟨id0, n "x"⟩ { w with nextId := id0 + 1 }
      some (setV vars j (some v), w, rOk r)
    | "remove" =>
      let (v, w, r) := remove c v (n "i") w
      some (setV vars j (some v), w, match r with | some e => "ok " ++ showElems kind [e] | none => "panic")
    | "swap_remove" =>
      let (v, w, r) := swapRemove c v (n "i") w
      some (setV vars j (some v), w, match r with | some e => "ok " ++ showElems kind [e] | none => "panic")
    | "truncate" =>
      let (v, w, r) := truncate c v (n "n") w
      some (setV vars j (some v), w, rOk r)
    | "clear" =>
      let (v, w, r) := clear c v w
      some (setV vars j (some v), w, rOk r)
    | "resize" =>
      let (v, w, r) := resize c v (n "n") ⟨id0, n "x"⟩ { w with nextId := id0 + 1 }
      some (setV vars j (some v), w, rOk r)
    | "extend" =>
      let args := mkElems id0 xs
      let (v, w, r) := extend c v (.src ⟨args, n "hint", 0, 0, ipanic⟩) { w with nextId := id0 + args.length }
      some (setV vars j (some v), w, rOk r)
    | "extend_from_slice" =>
      let src := mkElems id0 xs
      let (v, w, r) := extend c v (.cloned src) { w with nextId := id0 + src.length }
      some (setV vars j (some v), w, rOk r)
    | "extend_refs" =>
      -- `Extend<&'a T>` (`T: Copy`): `extend(iter.cloned())`
      let src := mkElems id0 xs
      let (v, w, r) := extend c v (.cloned src) { w with nextId := id0 + src.length }
      some (setV vars j (some v), w, rOk r)
    | "extend_copy" =>
      let src := mkElems id0 xs
      let (v, w, r) := extendFromSliceCopy c v src { w with nextId := id0 + src.length }
      some (setV vars j (some v), w, rOk r)
    | "extend_slices" =>
      let xss : List (List Nat) := match kv toks "xss" with
        | none => []
        | some "-" => []
        | some t => (t.splitOn "|").map parseList
      let (srcs, nid) := xss.foldl (fun (acc : List (List Elem) × Nat) l => (acc.1 ++ [mkElems acc.2 l], acc.2 + l.length)) ([], id0)
      let (v, w, r) := extendFromSlicesCopy c v srcs { w with nextId := nid }
      some (setV vars j (some v), w, rOk r)
    | "append" =>
      let b ← getV vars jw
      let (a, b, w, r) := append c v b w
      some (setV (setV vars j (some a)) jw (some b), w, rOk r)
    | "split_off" =>
      match splitOff c v (n "i") w with
      | (v, some o, w) => some (setV (setV vars j (some v)) jw (some o), w, "ok")
      | (v, none, w) => some (setV vars j (some v), w, "panic")
    | "drain" =>
      let (v, w, r) := drainOp c v (parseBd ((kv toks "s").getD "u")) (parseBd ((kv toks "e").getD "u")) (n "take") (n "back") forget w
      some (setV vars j (some v), w, match r with | some es => items es | none => "panic")
    | "splice" =>
      let args := mkElems id0 xs
      let (v, w, r) := spliceOp c v (parseBd ((kv toks "s").getD "u")) (parseBd ((kv toks "e").getD "u"))
        (.src ⟨args, n "hint", 0, 0, ipanic⟩) (n "take") { w with nextId := id0 + args.length }
      some (setV vars j (some v), w, match r with | some es => items es | none => "panic")
    | "drain_filter" =>
      let (v, w, r) := drainFilterOp c v pred (n "take") forget w
      some (setV vars j (some v), w, match r with | some es => items es | none => "panic")
    | "retain" =>
      let (v, w, r) := retain c v pred w
      some (setV vars j (some v), w, rOk r)
    | "dedup" =>
      let (v, w, r) := dedupBy c v (fun _ a b => some (a.val == b.val)) w
      some (setV vars j (some v), w, rOk r)
    | "dedup_by_lt" =>
      let (v, w, r) := dedupBy c v (fun _ a b => some (decide (a.val < b.val))) w
      some (setV vars j (some v), w, rOk r)
    | "dedup_by" =>
      let (v, w, r) := dedupBy c v (fun k _ _ => if ppanic == some k then none else some (ans.getD k false)) w
      some (setV vars j (some v), w, rOk r)
    | "dedup_by_key" =>
      let m := max (n "m") 1
      let (v, w, r) := dedupBy c v (fun k a b =>
        if ppanic == some (2 * k) || ppanic == some (2 * k + 1) then none else some (a.val % m == b.val % m)) w
      some (setV vars j (some v), w, rOk r)
    | "reserve" | "reserve_exact" | "try_reserve" | "try_reserve_exact" =>
      match reserveOp c v (n "n") (name == "reserve_exact" || name == "try_reserve_exact") with
      | .ok v => some (setV vars j (some v), w, "ok")
      | .error e => some (vars, w, if name.startsWith "try_" then (if e == .capOverflow then "err:cap" else "err:alloc") else "panic")
    | "shrink" =>
      match shrinkToFit c v with
      | some v => some (setV vars j (some v), w, "ok")
      | none => some (vars, w, "panic")
    | "clone" =>
      match cloneVec c v w with
      | (some nv, w) => some (setV vars jw (some nv), w, "ok")
      | (none, w) => some (vars, w, "panic")
    | "into_iter" =>
      let (w, r) := intoIterOp c v (n "take") (n "back") forget w
      some (setV vars j none, w, match r with | some es => items es | none => "panic")
    | "into_iter_nth" =>
      let (w, r) := intoIterNthOp c v (n "n") w
      some (setV vars j none, w, match r with | some es => items es | none => "panic")
    | "into_bump_slice" => some (setV vars j none, w, "slice " ++ showElems kind (intoBumpSlice v))
    | "into_boxed" =>
      let (es, w, p) := intoBoxedThenDrop c v w
      some (setV vars j none, w, if p then "panic" else "slice " ++ showElems kind es)
    | "drop" =>
      let (w, p) := dropVec c v w
      some (setV vars j none, w, if p then "panic" else "ok")
    | _ => none

def evDrops (evs : List V.Ev) : List Nat := evs.filterMap fun | .drop i => some i | _ => none
def evMoved (evs : List V.Ev) : List Nat := evs.filterMap fun | .moveOut i => some i | _ => none

def splitSections (line : String) : List String := (line.splitOn " | ").map (·.trimAscii.toString)
def sectionOf (secs : List String) (tag : String) : String :=
  match secs.find? (·.startsWith (tag ++ " ")) with
  | some s => (s.drop (tag.length + 1)).toString
  | none => ""

/-- `len:cap:[id:val,…]` of the implementation → a model vector (used to resynchronise) -/
def parseVar (esz : Nat) (s : String) : Option VS :=
  if s == "-" then none else
  match s.splitOn ":[" with
  | [hd, tl] =>
    match hd.splitOn ":" with
    | [l, cp] =>
      let len := l.toNat?.getD 0
      let cap := cp.toNat?.getD 0
      let body := (tl.dropEnd 1).toString
      let elems : List (Option Elem) :=
        if body.isEmpty then [] else
        (body.splitOn ",").map fun t =>
          match t.splitOn ":" with
          | [a, b] => some ⟨a.toNat?.getD 0, b.toNat?.getD 0⟩
          | _ => some ⟨0, 0⟩
      some ⟨if esz = 0 then elems else elems ++ List.replicate (cap - elems.length) none, len, if esz = 0 then 0 else cap⟩
    | _ => none
  | _ => none

def varText (kind : String) (c : Cfg) : Option VS → String × String × String
  | none => ("-", "-", "-")
  | some v => (toString v.len, toString (capOf c v), showElems kind v.owned)

def implVarText (s : String) : String × String × String :=
  if s == "-" then ("-", "-", "-") else
  match s.splitOn ":[" with
  | [hd, tl] =>
    match hd.splitOn ":" with
    | [l, cp] => (l, cp, "[" ++ tl)
    | _ => ("?", "?", "?")
  | _ => ("?", "?", "?")

def processLine (st : DState) (line : String) : DState × List String :=
  let st := { st with lineNo := st.lineNo + 1 }
  let line := line.trimAscii.toString
  if line.isEmpty || line.startsWith "#" || line.startsWith "ORACLE" || line.startsWith "SUMMARY" then (st, [])
  else if line.startsWith "PLAN" then
    let toks := line.splitOn " "
    let nv := (kvNat toks "nv").getD 3
    ({ st with planIdx := (kvNat toks "idx").getD 0, kind := (kv toks "kind").getD "E",
               ovf := (kv toks "ovf") != some "0", dbg := (kv toks "dbg") != some "0",
               vars := List.replicate nv none }, [])
  else
    let esz := if st.kind == "Z" then 0 else 16
    let c0 : Cfg := { esz := esz, eal := if st.kind == "Z" then 1 else 8, ovf := st.ovf, dbg := st.dbg,
                      needsDrop := st.kind != "C", freshClone := st.kind != "C" }
    let mk := fun (name field m i : String) => s!"DIFF plan={st.planIdx} line={st.lineNo} op={name} field={field} model={m} impl={i}"
    if line.startsWith "END" then
      -- every container is dropped, in variable order
      let toks := line.splitOn " "
      let w := st.vars.foldl (fun (w : W) o => match o with | some v => (dropVec c0 v w).1 | none => w) ({} : W)
      let m := showIds st.kind (evDrops w.evs)
      let i := (kv toks "drops").getD "[]"
      let ds := if m != i then [mk "end" "drops" m i] else []
      ({ st with vars := st.vars.map fun _ => none, diffs := st.diffs + ds.length }, ds)
    else
      let secs := splitSections line
      let opToks := (secs.headD "").splitOn " "
      let name := opToks.headD "?"
      let iRes := sectionOf secs "RES"
      let iObs := sectionOf secs "OBS"
      let obsToks := iObs.splitOn " "
      if iRes == "skip" || name == "raw" || name == "nb_str" || name == "iowrite" then
        ({ st with lines := st.lines + 1 }, [])
      else
        let c : Cfg := { c0 with clonePanicAt := kvNat opToks "cpanic", dropPanicAt := kvNat opToks "dpanic",
                                 allocOk := (kv opToks "env") != some "allocfail" }
        let w0 : W := { nextId := (kvNat opToks "id0").getD 1 }
        match runOp st.kind c opToks st.vars w0 with
        | none => ({ st with diffs := st.diffs + 1 }, [mk name "parse" "unparsable-or-dead-variable" "-"])
        | some (vars', w, mRes) =>
          let d1 := if mRes != iRes then [mk name "res" mRes iRes] else []
          let mDrops := showIds st.kind (evDrops w.evs)
          let mMoved := showIds st.kind (evMoved w.evs)
          let d2 := if mDrops != (kv obsToks "drops").getD "?" then [mk name "drops" mDrops ((kv obsToks "drops").getD "?")] else []
          let d3 := if mMoved != (kv obsToks "moved").getD "?" then [mk name "moved" mMoved ((kv obsToks "moved").getD "?")] else []
          let d4 := if w.bad.isEmpty then [] else [mk name "bad" (w.bad.headD "") "-"]
          let d5 : List String := (vars'.zipIdx).foldl (fun acc (o, j) =>
            let (ml, mc, mi) := varText st.kind c o
            let (il, ic, ii) := implVarText ((kv obsToks s!"v{j}").getD "-")
            acc ++ (if ml != il then [mk name "len" s!"v{j}:{ml}" s!"v{j}:{il}"] else [])
                ++ (if mc != ic then [mk name "cap" s!"v{j}:{mc}" s!"v{j}:{ic}"] else [])
                ++ (if mi != ii then [mk name "ids" s!"v{j}:{mi}" s!"v{j}:{ii}"] else [])) []
          let ds := d1 ++ d2 ++ d3 ++ d4 ++ d5
          -- resynchronise on the implementation's state if anything differed
          let varsNext := if ds.isEmpty then vars' else
            (vars'.zipIdx).map fun (_, j) =>
              if st.kind == "Z" then
                match implVarText ((kv obsToks s!"v{j}").getD "-") with
                | ("-", _, _) => none
                | (l, _, _) => let n := l.toNat?.getD 0; some ⟨List.replicate n (some ⟨0, 0⟩), n, 0⟩
              else parseVar esz ((kv obsToks s!"v{j}").getD "-")
          let kind := name ++ ":" ++ (mRes.splitOn " ").headD ""
          ({ st with vars := varsNext, lines := st.lines + 1, diffs := st.diffs + ds.length, kinds := bumpK st.kinds kind }, ds)

partial def loop (h : IO.FS.Stream) (st : DState) : IO DState := do
  let line ← h.getLine
  if line.isEmpty then return st
  let (st', outs) := processLine st line
  for o in outs do IO.println o
  loop h st'

def main : IO Unit := do
  let st ← loop (← IO.getStdin) {}
  let ks := ",".intercalate (st.kinds.map fun (k, n) => s!"{k}={n}")
  IO.println s!"DRIVER lines={st.lines} diffs={st.diffs} kinds={ks}"
