/-! line-protocol driver of the Vec family (placeholder until the family is built) -/
def main : IO Unit := pure ()
