import BumpVerif.Gen.FnArith
import BumpVerif.Gen.FnDetails
import BumpVerif.Gen.FnBytes
import BumpVerif.Gen.FnLimit
import BumpVerif.Gen.FnFooter
import BumpVerif.Gen.FnFast
import BumpVerif.Gen.FnRealloc
import BumpVerif.Gen.FnReset
import BumpVerif.Gen.FnNewChunk
import BumpVerif.Gen.FnSlow
import BumpVerif.Gen.FnIter
import BumpVerif.Gen.FnRawVec
import BumpVerif.Gen.FnRewind
import BumpVerif.Gen.FnGlue
import BumpVerif.Gen.FnChunks
import BumpVerif.Gen.FnTyped
import BumpVerif.Gen.FnVec
import BumpVerif.Gen.FnVecDrain
import BumpVerif.Gen.FnVecIntoIter
import BumpVerif.Gen.FnVecFilter
import BumpVerif.Gen.FnVecCopy
import BumpVerif.Gen.FnSplice
import BumpVerif.Gen.FnLossy
import BumpVerif.Gen.FnStr
import BumpVerif.Gen.FnBox
import BumpVerif.Model.Vec
/-!
Model-level witness search, run by `./check` when one of the equivalence theorems of `Props/GenFn*.lean` no longer
checks: every translated function (`Gen.Fn.*`, regenerated from the current source) is evaluated side by side with the
hand-written model function it is supposed to equal, over a grid of boundary arguments and small synthetic arena
states.  The first disagreement per function is printed as

  GENDIFF fn=<name> args=<…> gen=<…> model=<…>

which is a concrete input on which the *source as it is now* departs from the model the property theorems are about
(outcomes are compared up to the text of a `bad` diagnosis).  This is a search, not a proof: finding nothing proves
nothing; it only makes the replay file say what was tried.
-/
open Bump Bump.Rs

def showO {α : Type} [Repr α] : Outcome α → String
  | .ok a => s!"ok {repr a}"
  | .err => "err"
  | .panic => "panic"
  | .bad _ => "bad"
  | .envBad => "envBad"

def showSO {α : Type} [Repr α] (r : St × Outcome α) : String :=
  match r.2 with
  | .bad _ => "bad"     -- the state reached together with a `bad` outcome is not compared
  | o => s!"{showO o} chunks={repr r.1.a.chunks} lim={repr r.1.a.limit} evs={repr r.1.evs} mem={repr r.1.mem}"

def sizes : List Nat :=
  [0, 1, 2, 3, 7, 8, 9, 15, 16, 17, 31, 32, 47, 48, 63, 64, 100, 447, 448, 449, 511, 512, 1000, 4031, 4032, 4095, 4096, 4097, 8192,
   2 ^ 32 - 1, 2 ^ 32, 2 ^ 47, 2 ^ 48, 2 ^ 62, 2 ^ 63 - 4096, 2 ^ 63 - 64, 2 ^ 63 - 17, 2 ^ 63 - 16, 2 ^ 63 - 1, 2 ^ 63, 2 ^ 63 + 1,
   2 ^ 64 - 4096, 2 ^ 64 - 65, 2 ^ 64 - 64, 2 ^ 64 - 17, 2 ^ 64 - 16, 2 ^ 64 - 2, 2 ^ 64 - 1]

def aligns : List Nat := [1, 2, 4, 8, 16, 32, 64, 128, 4096, 2 ^ 20, 2 ^ 62, 2 ^ 63]
def minAligns : List Nat := [1, 2, 4, 8, 16]

/-- report the first argument tuple on which two renderings differ -/
def firstDiff (name : String) (cases : List (String × String × String)) : Option String :=
  match cases.find? (fun (_, g, m) => g != m) with
  | some (a, g, m) => some s!"GENDIFF fn={name} args={a} gen={g} model={m}"
  | none => none

/-- a small arena: chunks (newest first) with the finger `off` bytes below the footer -/
def mkChunk (data usable align off ab : Nat) : Chunk := ⟨data, usable + Gen.FOOTER_SIZE, align, data + usable - off, ab⟩

def states (E : Nat) : List St :=
  let c1 (off : Nat) : Chunk := mkChunk 0x10000 448 16 off 448
  let c2 (off : Nat) : Chunk := mkChunk 0x40000 960 16 off (448 + 960)
  let c3 : Chunk := mkChunk 0x80000 4032 4096 0 (448 + 960 + 4032)
  let arenas : List Arena :=
    (minAligns.flatMap fun M =>
      [⟨M, [], none⟩, ⟨M, [], some 100⟩, ⟨M, [], some 0⟩] ++
      ([0, 16, 48, 64, 432, 448].filter (· % M == 0)).flatMap fun off =>
        [⟨M, [c1 off], none⟩, ⟨M, [c2 off, c1 0], none⟩, ⟨M, [c2 off, c1 16], some 2000⟩, ⟨M, [c1 off], some 100⟩,
         ⟨M, [c3, c2 off, c1 0], none⟩, ⟨M, [c1 off], some 1000000⟩])
  let _ := E
  arenas.map fun a => { a := a, ans := [some 0x100000, none, some 0x200000, some 0x300000, none, none, some 0x400000] }

def main : IO Unit := do
  let E := 0x5000
  let mut out : List String := []
  let add := fun (o : Option String) (acc : List String) => match o with | some s => acc ++ [s] | none => acc
  -- arithmetic kernels
  let nd := sizes.flatMap fun n => (aligns ++ [2 ^ 3, 2 ^ 12]).map fun d => (n, d)
  out := add (firstDiff "round_up_to" (nd.map fun (n, d) => (s!"n={n} d={d}", showO (Gen.Fn.round_up_to n d), showO (.ok (roundUpTo n d))))) out
  out := add (firstDiff "round_down_to" (nd.map fun (n, d) => (s!"n={n} d={d}", showO (Gen.Fn.round_down_to n d), showO (.ok (roundDownTo n d))))) out
  out := add (firstDiff "round_mut_ptr_down_to" (nd.map fun (n, d) => (s!"p={n} d={d}", showO (Gen.Fn.round_mut_ptr_down_to n d), showO (.ok (wsub n (n % d)))))) out
  out := add (firstDiff "is_pointer_aligned_to" (nd.map fun (n, d) => (s!"p={n} a={d}", showO (Gen.Fn.is_pointer_aligned_to n d), showO (.ok (n % d == 0))))) out
  out := add (firstDiff "round_up_to_unchecked" (nd.map fun (n, d) => (s!"n={n} d={d}", showO (Gen.Fn.round_up_to_unchecked n d),
    showO (match roundUpTo n d with | some x => Outcome.ok x | none => .bad "")))) out
  out := add (firstDiff "layout_from_size_align" ((sizes.flatMap fun n => (aligns ++ [0, 3, 24]).map fun d => (n, d)).map fun (n, d) =>
    (s!"size={n} align={d}", showO (Gen.Fn.layout_from_size_align n d), showO (if validLayout n d then Outcome.ok (⟨n, d⟩ : Layout) else .err)))) out
  -- chunk sizing
  let reqs : List (Option Nat) := [none] ++ (sizes.filter (· < 2 ^ 63)).map some
  let dcases := minAligns.flatMap fun M => reqs.flatMap fun r => [0, 1, 8, 100, 448, 449, 4032, 4033, 8000, 2 ^ 40, 2 ^ 63 - 4096, 2 ^ 63 - 1].flatMap fun sz =>
    [1, 8, 16, 32, 4096].map fun al => (M, r, sz, al)
  out := add (firstDiff "new_chunk_memory_details" (dcases.map fun (M, r, sz, al) =>
    (s!"M={M} req={repr r} size={sz} align={al}", showO (Gen.Fn.new_chunk_memory_details M r ⟨sz, al⟩), showO (reify (newChunkMemoryDetails M r sz al))))) out
  let lims : List (Option Nat) := [none, some 0, some 1, some 447, some 448, some 449, some 960, some 4032, some (2 ^ 63)]
  out := add (firstDiff "chunk_fits_under_limit" ((lims.flatMap fun l => [0, 1, 447, 448, 449, 960, 4032].map fun n => (l, n)).map fun (l, n) =>
    (s!"remaining={repr l} nswf={n}", showO (Gen.Fn.chunk_fits_under_limit 1 l ⟨n, 16, n + 48⟩), showO (.ok (fitsUnderLimit l ⟨n, 16, n + 48⟩))))) out
  -- functions of the arena state
  let sts := states E
  let lays : List (Nat × Nat) := [0, 1, 7, 8, 16, 17, 48, 64, 400, 432, 447, 448, 449, 900, 960, 4032, 5000, 2 ^ 40, 2 ^ 63 - 64].flatMap fun sz =>
    [1, 2, 8, 16, 32, 128, 4096].map fun al => (sz, al)
  let tag := fun (s : St) => s!"M={s.a.M} chunks={repr s.a.chunks} lim={repr s.a.limit}"
  out := add (firstDiff "allocation_limit_remaining" (sts.map fun s => (tag s, showO (Gen.Fn.allocation_limit_remaining E s.a.M s), showO (.ok (limitRemaining s.a E))))) out
  out := add (firstDiff "chunk_capacity" (sts.map fun s => (tag s, showO (Gen.Fn.chunk_capacity E s.a.M s), showO (.ok (chunkCapacity s.a E))))) out
  out := add (firstDiff "try_alloc_layout_fast" ((sts.flatMap fun s => lays.map fun l => (s, l)).map fun (s, (sz, al)) =>
    (s!"{tag s} size={sz} align={al}", showSO (Gen.Fn.try_alloc_layout_fast E s.a.M ⟨sz, al⟩ s),
      showSO (match tryFast E s.a sz al with
        | .ok none => (s, Outcome.ok none)
        | .ok (some (a', p)) => ({ s with a := a' }, .ok (some p))
        | .err => (s, .err) | .panic => (s, .panic) | .bad w => (s, .bad w) | .envBad => (s, .envBad))))) out
  out := add (firstDiff "try_alloc_layout" ((sts.flatMap fun s => lays.map fun l => (s, l)).map fun (s, (sz, al)) =>
    (s!"{tag s} size={sz} align={al}", showSO (Gen.Fn.try_alloc_layout E s.a.M ⟨sz, al⟩ s), showSO (tryAllocLayout E sz al s)))) out
  out := add (firstDiff "alloc_layout_slow" ((sts.flatMap fun s => lays.map fun l => (s, l)).map fun (s, (sz, al)) =>
    (s!"{tag s} size={sz} align={al}", showSO (Gen.Fn.alloc_layout_slow E s.a.M ⟨sz, al⟩ s), showSO (Rs.alloc_layout_slow E s.a.M ⟨sz, al⟩ s)))) out
  out := add (firstDiff "reset" (sts.map fun s => (tag s, showSO (Gen.Fn.reset E s.a.M s), showSO (reset s)))) out
  out := add (firstDiff "dealloc_chunk_list" (sts.map fun s => (tag s, showSO (Gen.Fn.dealloc_chunk_list E s.a.M s.a.chunks s), showSO (Rs.dealloc_chunk_list s.a.chunks s)))) out
  out := add (firstDiff "Drop for Bump" (sts.map fun s => (tag s, (match Gen.Fn.bump_drop E s.a.M s with | (s', .ok _) => s!"ok evs={repr s'.evs}" | _ => "not-ok"), s!"ok evs={repr (dropArena s).evs}"))) out
  out := add (firstDiff "allocated_bytes_including_metadata" (sts.map fun s => (tag s, showSO (Gen.Fn.allocated_bytes_including_metadata E s.a.M s), showSO (s, Outcome.ok (allocatedBytesIncludingMetadata s.a E))))) out
  -- typed allocation methods: the writes and the closure calls against what the layout-level allocation returns
  let showT := fun {α : Type} [Repr α] (r : RsT.TS × Outcome α) => match r.2 with
    | .bad _ => "bad"
    | o => s!"{showO o} wr={repr r.1.wr} calls={repr r.1.calls} chunks={repr r.1.st.a.chunks} evs={repr r.1.st.evs}"
  let after := fun {α β : Type} (t : RsT.TS) (r : St × Outcome α) (k : St → α → RsT.TS × Outcome β) => (match r with
    | (s', .ok p) => k s' p | (s', .err) => ({ t with st := s' }, .err) | (s', .panic) => ({ t with st := s' }, .panic)
    | (s', .bad w) => ({ t with st := s' }, .bad w) | (s', .envBad) => ({ t with st := s' }, .envBad) : RsT.TS × Outcome β)
  let tys : List (Nat × Nat) := [(0, 1), (1, 1), (3, 1), (8, 8), (24, 8), (16, 16), (2 ^ 40, 8)]
  let tcases := sts.flatMap fun s => tys.flatMap fun ty => [0, 1, 3, 7, 2 ^ 30].map fun n => (s, ty, n)
  let g : Nat → RsT.Val := fun i => 100 + i
  out := add (firstDiff "alloc_slice_fill_with" (tcases.map fun (s, (esz, eal), n) =>
    let t : RsT.TS := { st := s, wr := [(1, 1)], calls := [9] }
    (s!"{tag s} esz={esz} eal={eal} len={n}", showT (Gen.Fn.t_alloc_slice_fill_with E s.a.M esz eal (min n 7) (fun i t => (t, .ok (g i))) t),
      showT (match arrayLayout esz eal (min n 7) with
        | none => (t, (Outcome.panic : Outcome (Nat × Nat)))
        | some total => after t (Gen.Fn.alloc_layout E s.a.M ⟨total, eal⟩ s) fun s' p =>
            ({ st := s', wr := t.wr ++ (List.range (min n 7)).map (fun i => (p + i * esz, g i)), calls := t.calls ++ List.range (min n 7) }, .ok (p, min n 7)))))) out
  out := add (firstDiff "try_alloc_slice_fill_with" (tcases.map fun (s, (esz, eal), n) =>
    let t : RsT.TS := { st := s }
    (s!"{tag s} esz={esz} eal={eal} len={n} panicAt=2", showT (Gen.Fn.t_try_alloc_slice_fill_with E s.a.M esz eal (min n 7) (fun i t => if i = 2 then (t, .panic) else (t, .ok (g i))) t),
      showT (match arrayLayout esz eal (min n 7) with
        | none => (t, (Outcome.err : Outcome (Nat × Nat)))
        | some total => after t (Gen.Fn.try_alloc_layout E s.a.M ⟨total, eal⟩ s) fun s' p =>
            if 2 < min n 7 then ({ st := s', wr := [(p, g 0), (p + esz, g 1)], calls := [0, 1, 2] }, .panic)
            else ({ st := s', wr := (List.range (min n 7)).map (fun i => (p + i * esz, g i)), calls := List.range (min n 7) }, .ok (p, min n 7)))))) out
  out := add (firstDiff "alloc / try_alloc" ((sts.flatMap fun s => tys.map fun ty => (s, ty)).map fun (s, (esz, eal)) =>
    let t : RsT.TS := { st := s }
    (s!"{tag s} esz={esz} eal={eal}", showT (Gen.Fn.t_alloc E s.a.M esz eal 77 t) ++ " | " ++ showT (Gen.Fn.t_try_alloc E s.a.M esz eal 77 t),
      showT (after t (Gen.Fn.alloc_layout E s.a.M ⟨esz, eal⟩ s) fun s' p => ({ st := s', wr := [(p, 77)], calls := [0] }, Outcome.ok p)) ++ " | " ++
      showT (after t (Gen.Fn.try_alloc_layout E s.a.M ⟨esz, eal⟩ s) fun s' p => ({ st := s', wr := [(p, 77)], calls := [0] }, Outcome.ok p))))) out
  out := add (firstDiff "alloc_slice_copy / alloc_str" ((sts.flatMap fun s => tys.flatMap fun ty => [[], [5], [5, 6, 7]].map fun src => (s, ty, src)).map fun (s, (esz, eal), src) =>
    let t : RsT.TS := { st := s }
    (s!"{tag s} esz={esz} eal={eal} src={repr src}", showT (Gen.Fn.t_try_alloc_slice_copy E s.a.M esz eal src t) ++ " | " ++ showT (Gen.Fn.t_alloc_str E s.a.M src t),
      showT (after t (Gen.Fn.try_alloc_layout E s.a.M ⟨esz * src.length, eal⟩ s) fun s' p =>
        ({ st := s', wr := (List.range src.length).map (fun i => (p + i * esz, src.getD i 0)) }, Outcome.ok (p, src.length))) ++ " | " ++
      showT (after t (Gen.Fn.alloc_layout E s.a.M ⟨src.length, 1⟩ s) fun s' p =>
        ({ st := s', wr := (List.range src.length).map (fun i => (p + i, src.getD i 0)) }, Outcome.ok (p, src.length)))))) out
  -- dealloc / shrink / grow of the newest block of the newest chunk
  let blocks := sts.filterMap fun s => match s.a.chunks with
    | c :: _ => if c.ptr < c.footer then some (s, c.ptr, c.footer - c.ptr) else none
    | [] => none
  out := add (firstDiff "dealloc" ((blocks.flatMap fun (s, p, n) => [n, n / 2, 0, 1].map fun sz => (s, p, sz)).map fun (s, p, sz) =>
    (s!"{tag s} ptr={p} size={sz}", showSO (Gen.Fn.dealloc E s.a.M p ⟨sz, 1⟩ s), showSO (dealloc E p sz s)))) out
  let rl : List (Nat × Nat × Nat) := [1, 2, 8, 16, 64].flatMap fun oal => [1, 8, 16, 32].flatMap fun nal => [0, 1, 8, 9, 24, 100, 448, 1000].map fun nsz => (oal, nal, nsz)
  out := add (firstDiff "shrink" ((blocks.flatMap fun (s, p, n) => rl.filterMap fun (oal, nal, nsz) => if nsz ≤ n then some (s, p, n, oal, nsz, nal) else none).map
    fun (s, p, n, oal, nsz, nal) => (s!"{tag s} ptr={p} old={n}@{oal} new={nsz}@{nal}",
      showSO (Gen.Fn.shrink E s.a.M p ⟨n, oal⟩ ⟨nsz, nal⟩ s), showSO (shrink E p n oal nsz nal s)))) out
  out := add (firstDiff "grow" ((blocks.flatMap fun (s, p, n) => rl.filterMap fun (oal, nal, nsz) => if n ≤ nsz then some (s, p, n, oal, nsz, nal) else none).map
    fun (s, p, n, oal, nsz, nal) => (s!"{tag s} ptr={p} old={n}@{oal} new={nsz}@{nal}",
      showSO (Gen.Fn.grow E s.a.M p ⟨n, oal⟩ ⟨nsz, nal⟩ s), showSO (grow E p n oal nsz nal s)))) out
  -- the Alloc / Allocator impls over the kernel
  let showP := fun (r : St × Outcome (Nat × Nat)) => match r.2 with | .bad _ => "bad" | o => s!"{showO o} chunks={repr r.1.a.chunks} evs={repr r.1.evs} mem={repr r.1.mem}"
  let mapP := fun (n : Nat) (r : St × Outcome Nat) => (match r with | (s, .ok q) => (s, Outcome.ok (q, n)) | (s, .err) => (s, .err) | (s, .panic) => (s, .panic) | (s, .bad w) => (s, .bad w) | (s, .envBad) => (s, .envBad) : St × Outcome (Nat × Nat))
  out := add (firstDiff "alloc_layout" ((sts.flatMap fun s => lays.map fun l => (s, l)).map fun (s, (sz, al)) =>
    (s!"{tag s} size={sz} align={al}", showSO (Gen.Fn.alloc_layout E s.a.M ⟨sz, al⟩ s), showSO (allocLayout E sz al s)))) out
  out := add (firstDiff "Allocator::allocate" ((sts.flatMap fun s => lays.map fun l => (s, l)).map fun (s, (sz, al)) =>
    (s!"{tag s} size={sz} align={al}", showP (Gen.Fn.allocator_allocate E s.a.M ⟨sz, al⟩ s), showP (mapP sz (tryAllocLayout E sz al s))))) out
  out := add (firstDiff "Alloc::realloc" ((blocks.flatMap fun (s, p, n) => [1, 8, 16].flatMap fun al => [0, 1, n / 2, n, n + 8, 2 * n + 100, 5000].map fun nsz => (s, p, n, al, nsz)).map
    fun (s, p, n, al, nsz) => (s!"{tag s} ptr={p} old={n}@{al} new_size={nsz}",
      showSO (Gen.Fn.alloc_realloc E s.a.M p ⟨n, al⟩ nsz s),
      showSO (if n = 0 then tryAllocLayout E n al s else if validLayout nsz al then (if nsz ≤ n then shrink E p n al nsz al s else grow E p n al nsz al s) else (s, .err))))) out
  out := add (firstDiff "Allocator::shrink" ((blocks.flatMap fun (s, p, n) => rl.filterMap fun (oal, nal, nsz) => if nsz ≤ n then some (s, p, n, oal, nsz, nal) else none).map
    fun (s, p, n, oal, nsz, nal) => (s!"{tag s} ptr={p} old={n}@{oal} new={nsz}@{nal}",
      showP (Gen.Fn.allocator_shrink E s.a.M p ⟨n, oal⟩ ⟨nsz, nal⟩ s), showP (mapP nsz (shrink E p n oal nsz nal s))))) out
  out := add (firstDiff "Allocator::grow_zeroed" ((blocks.flatMap fun (s, p, n) => rl.filterMap fun (oal, nal, nsz) => if n ≤ nsz then some (s, p, n, oal, nsz, nal) else none).map
    fun (s, p, n, oal, nsz, nal) => (s!"{tag s} ptr={p} old={n}@{oal} new={nsz}@{nal}",
      showP (Gen.Fn.allocator_grow_zeroed E s.a.M p ⟨n, oal⟩ ⟨nsz, nal⟩ s),
      showP (mapP nsz (bindO (grow E p n oal nsz nal s) fun s q => ({ s with mem := s.mem ++ [.zero (q + n) (nsz - n)] }, .ok q)))))) out
  -- the failed-initializer rewind
  out := add (firstDiff "alloc_try_with_rewind" ((blocks.flatMap fun (s, p, _) => [(s, p, s.a.cur E, (s.a.cur E).footer), (s, p, emptyChunk E, E)]).map
    fun (s, p, rf, rp) => (s!"{tag s} slot={p} rewind_footer={rf.footer} rewind_ptr={rp}",
      showSO (Gen.Fn.alloc_try_with_rewind E s.a.M rf rp p s),
      showSO (rewind E (if rf.footer == E then none else some rf.footer) rp p s)))) out
  out := add (firstDiff "try_alloc_try_with_rewind" ((blocks.flatMap fun (s, p, _) => [(s, p, s.a.cur E, (s.a.cur E).footer), (s, p, emptyChunk E, E)]).map
    fun (s, p, rf, rp) => (s!"{tag s} slot={p} rewind_footer={rf.footer} rewind_ptr={rp}",
      showSO (Gen.Fn.try_alloc_try_with_rewind E s.a.M rf rp p s),
      showSO (rewind E (if rf.footer == E then none else some rf.footer) rp p s)))) out
  -- RawVec capacity logic
  let caps : List Nat := [0, 1, 3, 4, 8, 100, 2 ^ 31, 2 ^ 62, 2 ^ 63 - 1]
  let cfgs : List V.Cfg := [{ esz := 0, eal := 1 }, { esz := 1, eal := 1 }, { esz := 16, eal := 8 }, { esz := 24, eal := 8, allocOk := false }]
  let rvs := cfgs.flatMap fun c => caps.flatMap fun cap => [0, 1, cap, cap + 1, 2 ^ 64 - 1].flatMap fun used =>
    [0, 1, 5, 2 ^ 63, 2 ^ 64 - 1].map fun extra => (c, (⟨[], 0, cap⟩ : V.VS), used, extra)
  out := add (firstDiff "amortized_new_size" ((rvs.filter fun (_, v, _, _) => v.cap * 2 < USIZE).map fun (c, v, u, e) =>
    (s!"esz={c.esz} cap={v.cap} used={u} extra={e}", showO (Gen.Fn.amortized_new_size c u e v), showO (.ok (okOr (V.amortizedNewCap c v u e) V.RErr.capOverflow))))) out
  let showV := fun {α : Type} [Repr α] (r : V.VS × Outcome α) => match r.2 with | .bad _ => "bad" | o => s!"{showO o} cap={r.1.cap}"
  out := add (firstDiff "RawVec::reserve" (rvs.map fun (c, v, u, e) =>
    (s!"esz={c.esz} allocOk={c.allocOk} cap={v.cap} used={u} extra={e}", showV (Gen.Fn.rv_reserve c u e v),
      showV (match V.rawReserve c v u e with | some v' => (v', Outcome.ok ()) | none => (v, .panic))))) out
  out := add (firstDiff "RawVec::try_reserve" (rvs.map fun (c, v, u, e) =>
    (s!"esz={c.esz} allocOk={c.allocOk} cap={v.cap} used={u} extra={e}", showV (Gen.Fn.rv_try_reserve c u e v),
      showV (match V.reserveGen c v u e false with | .ok v' => (v', Outcome.ok (Except.ok ())) | .error er => (v, .ok (.error er)))))) out
  -- Vec methods on small vectors (a few with an uninitialised slot inside the length, i.e. already broken)
  let el (i : Nat) : V.Elem := ⟨i, 10 * i⟩
  let vcfgs : List V.Cfg := [{ esz := 16, eal := 8 }, { esz := 0, eal := 1 }, { esz := 8, eal := 8, allocOk := false },
    { esz := 16, eal := 8, dropPanicAt := some 0 }, { esz := 16, eal := 8, needsDrop := false }]
  let vecs : List V.VS := [⟨[], 0, 0⟩, ⟨[some (el 1), none, none, none], 1, 4⟩, ⟨[some (el 1), some (el 2), some (el 3), none], 3, 4⟩,
    ⟨[some (el 1), some (el 2), some (el 3), some (el 4)], 4, 4⟩, ⟨[some (el 1), none, some (el 3), none], 3, 4⟩,
    ⟨[some (el 1), some (el 2)], 2, 2⟩, ⟨[some (el 1), some (el 2), some (el 3)], 2, 3⟩]
  let w0 : V.W := {}
  let showM := fun {α : Type} [Repr α] (r : V.VS × V.W × Option α) =>
    if r.2.1.bad.isEmpty then s!"{repr r.1} evs={repr r.2.1.evs} drops={r.2.1.dropCalls} res={repr r.2.2}" else "bad"
  let vc := vcfgs.flatMap fun c => vecs.map fun v => (c, v)
  let vtag := fun (c : V.Cfg) (v : V.VS) => s!"esz={c.esz} allocOk={c.allocOk} dropPanicAt={repr c.dropPanicAt} needsDrop={c.needsDrop} vec={repr v}"
  out := add (firstDiff "Vec::push" (vc.map fun (c, v) =>
    (vtag c v, showM (RsM.toModel (Gen.Fn.vec_push c (el 9) (v, w0))), showM (V.push c v (el 9) w0)))) out
  out := add (firstDiff "Vec::pop" (vc.map fun (c, v) =>
    (vtag c v, showM (match Gen.Fn.vec_pop c (v, w0) with
        | (s, .ok x) => (s.1, s.2, x) | (s, .bad why) => (s.1, s.2.flag why, none) | (s, _) => (s.1, s.2.flag "panic", none)),
      showM (V.pop v w0)))) out
  let vci := vc.flatMap fun (c, v) => [0, 1, 2, 3, 4, 5].map fun i => (c, v, i)
  out := add (firstDiff "Vec::insert" (vci.map fun (c, v, i) =>
    (vtag c v ++ s!" index={i}", showM (RsM.toModel (Gen.Fn.vec_insert c i (el 9) (v, w0))), showM (V.insert c v i (el 9) w0)))) out
  out := add (firstDiff "Vec::remove" (vci.map fun (c, v, i) =>
    (vtag c v ++ s!" index={i}", showM (RsM.toModel (Gen.Fn.vec_remove c i (v, w0))), showM (V.remove c v i w0)))) out
  out := add (firstDiff "Vec::swap_remove" (vci.map fun (c, v, i) =>
    (vtag c v ++ s!" index={i}", showM (RsM.toModel (Gen.Fn.vec_swap_remove c i (v, w0))), showM (V.swapRemove c v i w0)))) out
  out := add (firstDiff "Vec::truncate" (vci.map fun (c, v, i) =>
    (vtag c v ++ s!" len={i}", showM (RsM.toModel (Gen.Fn.vec_truncate c i (v, w0))), showM (V.truncate c v i w0)))) out
  out := add (firstDiff "Vec::extend_with" ((vci.flatMap fun (c, v, i) => [none, some 0, some 1].map fun cp => ({ c with clonePanicAt := cp }, v, i)).map fun (c, v, i) =>
    (vtag c v ++ s!" clonePanicAt={repr c.clonePanicAt} n={i}", showM (RsM.toModel (Gen.Fn.vec_extend_with c i (el 9) (v, w0))), showM (V.extendWith c v i (el 9) w0)))) out
  out := add (firstDiff "Vec::resize" ((vci.flatMap fun (c, v, i) => [none, some 0, some 1].map fun cp => ({ c with clonePanicAt := cp }, v, i)).map fun (c, v, i) =>
    (vtag c v ++ s!" clonePanicAt={repr c.clonePanicAt} new_len={i}", showM (RsM.toModel (Gen.Fn.vec_resize c i (el 9) (v, w0))), showM (V.resize c v i (el 9) w0)))) out
  let dvecs : List V.VS := vecs ++ [⟨[some ⟨1, 5⟩, some ⟨2, 5⟩, some ⟨3, 7⟩, some ⟨4, 7⟩], 4, 4⟩, ⟨[some ⟨1, 5⟩, some ⟨2, 6⟩, some ⟨3, 5⟩, some ⟨4, 5⟩, some ⟨5, 5⟩, none], 5, 6⟩]
  let cbs : List (String × (Nat → V.Elem → V.Elem → Option Bool)) := [("same-val", fun _ a b => some (a.val == b.val)), ("never", fun _ _ _ => some false),
    ("always", fun _ _ _ => some true), ("panic@1", fun k a b => if k == 1 then none else some (a.val == b.val)), ("alternate", fun k _ _ => some (k % 2 == 0))]
  out := add (firstDiff "Vec::dedup_by" ((vcfgs.flatMap fun c => dvecs.flatMap fun v => cbs.map fun cb => (c, v, cb)).map fun (c, v, (cbn, cb)) =>
    (vtag c v ++ s!" cb={cbn}", showM (RsM.toModel (Gen.Fn.vec_dedup_by c cb (v, w0))), showM (V.dedupBy c v cb w0)))) out
  -- drain(range) and the destructor of the Drain it returns (after 0 or 1 calls of next)
  let bds : List V.Bd := [.unb, .inc 0, .inc 1, .inc 3, .exc 0, .exc 2, .exc 4, .inc (2 ^ 64 - 1), .exc (2 ^ 64 - 1)]
  let vcb := vc.flatMap fun (c, v) => bds.flatMap fun a => bds.map fun b => (c, v, a, b)
  out := add (firstDiff "Vec::drain" (vcb.map fun (c, v, a, b) =>
    (vtag c v ++ s!" range=({repr a}, {repr b})",
      (match Gen.Fn.vec_drain c (a, b) (v, w0) with | (s, .ok d) => s!"ok {repr s.1} {repr d}" | (_, .panic) => "panic" | _ => "bad"),
      (match V.drainNew c v a b with | some (v', d) => s!"ok {repr v'} {repr d}" | none => "panic")))) out
  let showD := fun (r : V.VS × V.W × Bool) =>
    if r.2.1.bad.isEmpty then s!"{repr r.1} evs={repr r.2.1.evs} drops={r.2.1.dropCalls} panicked={r.2.2}" else "bad"
  -- (compared where the model records no UB step: `readRange` flags an uninitialised slot before any destructor runs, the
  -- source only when it gets there)
  out := add (firstDiff "Drain::drop" ((vcb.filter fun (c, v, a, b) => match V.drainNew c v a b with
      | some (v', d) => (d.drop c v' w0).2.1.bad.isEmpty | none => false).filterMap fun (c, v, a, b) => match V.drainNew c v a b with
    | none => none
    | some (v', d) => some (vtag c v ++ s!" range=({repr a}, {repr b})",
        showD (match Gen.Fn.drain_drop c d.tailStart d.tailLen (d.lo, d.hi) (v', w0) with
          | (s, .ok _) => (s.1, s.2, false) | (s, .panic) => (s.1, s.2, true) | (s, .bad why) => (s.1, s.2.flag why, false) | (s, _) => (s.1, s.2.flag "?", false)),
        showD (d.drop c v' w0)))) out
  -- IntoIter: into_iter, then k calls of next, then the destructor, against intoIterOp (sized elements, model unflagged)
  let iiGen := fun (c : V.Cfg) (v : V.VS) (k : Nat) =>
    match Gen.Fn.vec_into_iter c (v, w0) with
    | (s0, .ok (lo0, hi0)) =>
      let rec go (fuel : Nat) (lo hi : Nat) (s : RsM.VW) (acc : List V.Elem) : Option (Nat × Nat × RsM.VW × List V.Elem) :=
        match fuel with
        | 0 => some (lo, hi, s, acc)
        | f + 1 => match Gen.Fn.intoiter_next c lo hi s with
          | (s1, .ok (some e, lo1, hi1)) => go f lo1 hi1 (RsM.moved e s1) (acc ++ [e])
          | (s1, .ok (none, lo1, hi1)) => some (lo1, hi1, s1, acc)
          | _ => none
      match go k lo0 hi0 s0 [] with
      | some (lo, hi, s, acc) =>
        (match Gen.Fn.intoiter_drop c lo hi s with
          | (s2, .ok _) => s!"evs={repr s2.2.evs} drops={s2.2.dropCalls} res=some {repr acc}"
          | (s2, .panic) => s!"evs={repr s2.2.evs} drops={s2.2.dropCalls} res=none"
          | _ => "bad")
      | none => "bad"
    | _ => "bad"
  out := add (firstDiff "IntoIter" (((vc.filter fun (c, _) => c.esz != 0).flatMap fun (c, v) => [0, 1, 2, 5].map fun k => (c, v, k)).filterMap fun (c, v, k) =>
    let m := V.intoIterOp c v k 0 false w0
    if m.1.bad.isEmpty then some (vtag c v ++ s!" next-calls={k}", iiGen c v k,
      s!"evs={repr m.1.evs} drops={m.1.dropCalls} res={match m.2 with | some xs => "some " ++ toString (repr xs) | none => "none"}") else none)) out
  -- drain_filter(pred) dropped at once (= retain with the negated predicate), and after one call of next; model unflagged
  let cb1s : List (String × (Nat → V.Elem → Option Bool)) := [("val>15", fun _ e => some (decide (e.val > 15))), ("all", fun _ _ => some true), ("none", fun _ _ => some false),
    ("alternate", fun k _ => some (k % 2 == 0)), ("panic@1", fun k e => if k == 1 then none else some (decide (e.val > 15))), ("panic@0", fun k _ => if k == 0 then none else some true)]
  let dfGen := fun (c : V.Cfg) (v : V.VS) (cb : Nat → V.Elem → Option Bool) =>
    match Gen.Fn.vec_drain_filter c cb (v, w0) with
    | (s0, .ok d) =>
      (match Gen.Fn.df_drop c cb d.idx d.del d.oldLen d.calls d.panicFlag s0 with
        | (s1, .ok (.ok _, _)) => s!"{repr s1.1} evs={repr s1.2.evs} drops={s1.2.dropCalls} returned"
        | (s1, .ok (.error _, _)) => s!"{repr s1.1} evs={repr s1.2.evs} drops={s1.2.dropCalls} unwound"
        | _ => "bad")
    | _ => "bad"
  out := add (firstDiff "DrainFilter::drop" ((vc.flatMap fun (c, v) => cb1s.map fun cb => (c, v, cb)).filterMap fun (c, v, (cbn, cb)) =>
    let m := V.dfDrop c cb { v with len := 0 } ⟨0, 0, v.len, 0, false⟩ w0
    if m.2.1.bad.isEmpty then some (vtag c v ++ s!" pred={cbn}", dfGen c v cb,
      s!"{repr m.1} evs={repr m.2.1.evs} drops={m.2.1.dropCalls} {if m.2.2 then "returned" else "unwound"}") else none)) out
  out := add (firstDiff "Vec::retain" ((vc.flatMap fun (c, v) => cb1s.map fun cb => (c, v, cb)).filterMap fun (c, v, (cbn, cb)) =>
    let m := V.retain c v cb w0
    if m.2.1.bad.isEmpty then some (vtag c v ++ s!" keep={cbn}", showM (RsM.toModel (Gen.Fn.vec_retain c cb (v, w0))), showM m) else none)) out
  out := add (firstDiff "Vec::reserve" (vci.map fun (c, v, i) =>
    (vtag c v ++ s!" additional={i}", showM (RsM.toModel (Gen.Fn.vec_reserve c i (v, w0))),
      showM (match V.rawReserve c v v.len i with | some v' => (v', w0, some ()) | none => (v, w0, none))))) out
  let srcs : List (List V.Elem) := [[], [⟨90, 9⟩], [⟨91, 1⟩, ⟨92, 2⟩, ⟨93, 3⟩], (List.range 9).map fun i => ⟨200 + i, i⟩]
  out := add (firstDiff "Vec::extend_from_slice_copy" ((vc.flatMap fun (c, v) => srcs.map fun src => (c, v, src)).map fun (c, v, src) =>
    (vtag c v ++ s!" src={repr src}", showM (RsM.toModel (Gen.Fn.vec_extend_from_slice_copy c (src.map some) (v, w0))), showM (V.extendFromSliceCopy c v src w0)))) out
  out := add (firstDiff "Vec::append" ((vc.flatMap fun (c, v) => vc.filterMap fun (c2, b) => if c2.esz == c.esz && c2.eal == c.eal && c2.needsDrop == c.needsDrop && b.len ≤ 3 then some (c, v, b) else none).map fun (c, v, b) =>
    (vtag c v ++ " other=" ++ vtag c b,
      (match RsM.toModel (Gen.Fn.vec_append_elements c (b.slots.take b.len) (v, w0)) with
        | (a', w', some ()) => s!"{repr a'} {repr ({ b with len := 0 } : V.VS)} evs={repr w'.evs} bad={repr w'.bad} ok"
        | (a', w', none) => s!"{repr a'} {repr b} evs={repr w'.evs} bad={repr w'.bad} panic"),
      (match V.append c v b w0 with
        | (a', b', w', some ()) => s!"{repr a'} {repr b'} evs={repr w'.evs} bad={repr w'.bad} ok"
        | (a', b', w', none) => s!"{repr a'} {repr b'} evs={repr w'.evs} bad={repr w'.bad} panic")))) out
  let its : List (String × V.It) := [("src[]", .src { items := [], hint := 0 }), ("src3", .src { items := [⟨70, 1⟩, ⟨71, 2⟩, ⟨72, 3⟩], hint := 2 }),
    ("src3-panic@1", .src { items := [⟨70, 1⟩, ⟨71, 2⟩, ⟨72, 3⟩], hint := 0, panicAt := some 1 }), ("src9-hint20", .src { items := (List.range 9).map (fun i => ⟨300 + i, i⟩), hint := 20 }),
    ("cloned2", .cloned [⟨80, 1⟩, ⟨81, 2⟩]), ("owned2", .owned [⟨85, 1⟩, ⟨86, 2⟩])]
  out := add (firstDiff "Vec: Extend<T>" ((vc.flatMap fun (c, v) => its.map fun it => (c, v, it)).filterMap fun (c, v, (itn, it)) =>
    let m := V.extend c v it w0
    if m.2.1.bad.isEmpty then some (vtag c v ++ s!" iter={itn}", showM (RsM.toModel (Gen.Fn.vec_extend c it (v, w0))), showM m) else none)) out
  let showB := fun (r : Option V.VS × V.W) => s!"{repr r.1} evs={repr r.2.evs} bad={repr r.2.bad} drops={r.2.dropCalls}"
  let builtV := fun (r : RsM.VW × Outcome Unit) => (match r with | ((v, w), .ok _) => (some v, w) | ((_, w), .panic) => (none, w) | ((_, w), .bad why) => (none, w.flag why) | ((_, w), _) => (none, w.flag "?") : Option V.VS × V.W)
  out := add (firstDiff "Vec::from_iter_in" ((vc.flatMap fun (c, v) => its.map fun it => (c, v, it)).filterMap fun (c, v, (itn, it)) =>
    let m := V.fromIter c it w0
    if m.2.bad.isEmpty then some (vtag c v ++ s!" iter={itn}", showB (builtV (Gen.Fn.vec_from_iter_in c it () (v, w0))), showB m) else none)) out
  out := add (firstDiff "Vec::clone" (vc.filterMap fun (c, v) =>
    let m := V.cloneVec c v w0
    if m.2.bad.isEmpty then some (vtag c v, showB (builtV (Gen.Fn.vec_clone c (v, w0))), showB m) else none)) out
  out := add (firstDiff "Vec::split_off" (vci.map fun (c, v, i) =>
    (vtag c v ++ s!" at={i}",
      (match Gen.Fn.vec_split_off c i (v, w0) with
        | ((v', w'), .ok o) => s!"{repr v'} {repr (some o)} bad={repr w'.bad}" | ((v', w'), .bad why) => s!"{repr v'} none bad={repr (w'.flag why).bad}" | ((v', w'), _) => s!"{repr v'} none bad={repr w'.bad}"),
      (match V.splitOff c v i w0 with | (v', o, w') => s!"{repr v'} {repr o} bad={repr w'.bad}")))) out
  -- `Drain::fill` / `Drain::move_tail` on vectors with a gap `[len, tail_start)` and a tail behind it
  let gaps := vc.flatMap fun (c, v) => [0, 1, 2].flatMap fun cut => [0, 1, 2].filterMap fun tl =>
    if cut ≤ v.len ∧ v.len + tl ≤ v.slots.length + 0 ∧ cut + 0 ≤ v.len then some (c, ({ v with len := v.len - cut } : V.VS), (⟨v.len, tl, 0, 0⟩ : V.Drain)) else none
  out := add (firstDiff "Drain::fill" ((gaps.flatMap fun (c, v, d) => its.map fun it => (c, v, d, it)).filterMap fun (c, v, d, (itn, it)) =>
    let m := V.Drain.fill c d (d.tailStart - v.len) v it w0
    if m.2.2.1.bad.isEmpty then some (vtag c v ++ s!" tail_start={d.tailStart} iter={itn}",
      (match Gen.Fn.drain_fill c d.tailStart d.tailLen it (v, w0) with
        | ((v', w'), it', o) => s!"{repr v'} evs={repr w'.evs} bad={repr w'.bad} it={repr it'.remaining} {match o with | .ok b => toString b | .panic => "panic" | _ => "other"}"),
      s!"{repr m.1} evs={repr m.2.2.1.evs} bad={repr m.2.2.1.bad} it={repr m.2.1.remaining} {match m.2.2.2 with | some b => toString b | none => "panic"}") else none)) out
  out := add (firstDiff "Drain::move_tail" ((gaps.flatMap fun (c, v, d) => [0, 1, 5, 100].map fun ex => (c, v, d, ex)).filterMap fun (c, v, d, ex) =>
    match V.Drain.moveTail c v d ex w0 with
    | none => some (vtag c v ++ s!" tail=({d.tailStart},{d.tailLen}) extra={ex}", (match Gen.Fn.drain_move_tail c d.tailStart d.tailLen ex (v, w0) with | (_, .panic) => "panic" | (_, .ok n) => s!"ok {n}" | _ => "other"), "panic")
    | some (v', d', w') => if w'.bad.isEmpty then some (vtag c v ++ s!" tail=({d.tailStart},{d.tailLen}) extra={ex}",
        (match Gen.Fn.drain_move_tail c d.tailStart d.tailLen ex (v, w0) with | ((a, b), .ok n) => s!"{repr a} bad={repr b.bad} ok {n}" | (_, .panic) => "panic" | _ => "other"),
        s!"{repr v'} bad={repr w'.bad} ok {d'.tailStart}") else none)) out
  -- the lossy UTF-8 chunker on all strings of up to 3 boundary bytes (and a few longer ones)
  let bs : List UInt8 := [0x00, 0x41, 0x7F, 0x80, 0x8F, 0x90, 0x9F, 0xA0, 0xBF, 0xC0, 0xC2, 0xDF, 0xE0, 0xE1, 0xEC, 0xED, 0xEE, 0xEF, 0xF0, 0xF1, 0xF3, 0xF4, 0xF5, 0xFF]
  let strs : List (List UInt8) := (bs.map fun a => [a]) ++ (bs.flatMap fun a => bs.map fun b => [a, b]) ++
    (bs.flatMap fun a => bs.flatMap fun b => bs.map fun c => [a, b, c]) ++
    [[0xF0, 0x90, 0x80, 0x80], [0xF4, 0x8F, 0xBF, 0xBF], [0xF4, 0x90, 0x80, 0x80], [0x41, 0xE2, 0x82, 0xAC, 0x42], [0xF0, 0x9F, 0x92], [0xED, 0xA0, 0x80, 0x41]]
  out := add (firstDiff "Utf8LossyChunksIter::next" (strs.map fun b =>
    (s!"bytes={repr (b.map UInt8.toNat)}", toString (repr (Gen.Fn.lossy_next b)), toString (repr (some (Str.lossyNext b)))))) out
  let showO := fun (r : Outcome (List UInt8)) => match r with | .bad w => s!"bad {w}" | .ok t => s!"ok {repr (t.map UInt8.toNat)}" | .panic => "panic" | .err => "err" | .envBad => "envBad"
  out := add (firstDiff "String::from_utf8_lossy_in" ((strs.flatMap fun b => [(b, true), (b, false)]).map fun (b, dbg) =>
    (s!"bytes={repr (b.map UInt8.toNat)} dbg={dbg}", showO (Gen.Fn.from_utf8_lossy_in dbg b), showO (Str.fromUtf8Lossy dbg b)))) out
  -- String methods on short texts (valid UTF-8 and not)
  let texts : List (List UInt8) := [[], [0x41], [0x41, 0x42, 0x43], [0xC3, 0xA9], [0x41, 0xE2, 0x82, 0xAC, 0x42], [0xF0, 0x9F, 0x92, 0xA9, 0x41], [0x41, 0x80], [0xE2, 0x82]]
  let showB := fun {α : Type} [Repr α] (r : Outcome (List UInt8 × α)) => match r with | .bad _ => "bad" | .ok (t, a) => s!"ok {repr (t.map UInt8.toNat)} {repr a}" | .panic => "panic" | .err => "err" | .envBad => "envBad"
  let finS := fun {α : Type} (r : RsS.SB × Outcome α) => (match r with | (s, .ok a) => Outcome.ok (RsS.text s, a) | (_, .panic) => .panic | (_, .bad w) => .bad w | (_, .err) => .err | (_, .envBad) => .envBad : Outcome (List UInt8 × α))
  let ti := texts.flatMap fun t => [0, 1, 2, 3, 4, 5, 6].map fun i => (t, i)
  out := add (firstDiff "String::pop" (texts.map fun t => (s!"text={repr (t.map UInt8.toNat)}",
    showB (match finS (Gen.Fn.str_pop (t, t.length)) with | .ok (x, r) => Outcome.ok (x, r.map Prod.fst) | .panic => .panic | .bad w => .bad w | .err => .err | .envBad => .envBad),
    showB (Str.pop t)))) out
  out := add (firstDiff "String::remove" (ti.map fun (t, i) => (s!"text={repr (t.map UInt8.toNat)} idx={i}",
    showB (match finS (Gen.Fn.str_remove i (t, t.length)) with | .ok (x, r) => Outcome.ok (x, r.1) | .panic => .panic | .bad w => .bad w | .err => .err | .envBad => .envBad),
    showB (Str.remove t i)))) out
  out := add (firstDiff "String::insert" ((ti.flatMap fun (t, i) => ['a', 'é', '€', '💩'].map fun c => (t, i, c)).map fun (t, i, c) => (s!"text={repr (t.map UInt8.toNat)} idx={i} ch={repr c}",
    showB (finS (Gen.Fn.str_insert i c (t, t.length))), showB (match Str.insert t i c with | .ok x => Outcome.ok (x, ()) | .panic => .panic | .bad w => .bad w | .err => .err | .envBad => .envBad)))) out
  out := add (firstDiff "String::truncate" (ti.map fun (t, i) => (s!"text={repr (t.map UInt8.toNat)} new_len={i}",
    showB (finS (Gen.Fn.str_truncate i (t, t.length))), showB (match Str.truncate t i with | .ok x => Outcome.ok (x, ()) | .panic => .panic | .bad w => .bad w | .err => .err | .envBad => .envBad)))) out
  let anss : List (String × (Nat → Bool)) := [("all", fun _ => true), ("none", fun _ => false), ("alternate", fun k => k % 2 == 0), ("skip-first", fun k => k != 0)]
  out := add (firstDiff "String::retain" ((texts.flatMap fun t => anss.flatMap fun a => [none, some 0, some 1, some 2].map fun pa => (t, a, pa)).map fun (t, (an, a), pa) =>
    (s!"text={repr (t.map UInt8.toNat)} keep={an} panicAt={repr pa}",
      (match Gen.Fn.str_retain a pa (t, t.length) with | (s, .ok _) => s!"ok {repr ((RsS.text s).map UInt8.toNat)} returned" | (s, .panic) => s!"ok {repr ((RsS.text s).map UInt8.toNat)} unwound" | _ => "bad"),
      (match Str.retain t a pa with | .ok o => s!"ok {repr (o.bytes.map UInt8.toNat)} {if o.panicked then "unwound" else "returned"}" | _ => "bad")))) out
  let bds : List Str.Bd := [.unbounded, .incl 0, .incl 1, .incl 3, .incl (USIZE - 1), .excl 0, .excl 1, .excl 4, .excl (USIZE - 1)]
  out := add (firstDiff "String::replace_range" ((texts.flatMap fun t => bds.flatMap fun a => bds.flatMap fun b => [true, false].map fun o => (t, a, b, o)).map fun (t, a, b, o) =>
    (s!"text={repr (t.map UInt8.toNat)} range=({repr a}, {repr b}) ovf={o}",
      showO (match Gen.Fn.str_replace_range o (a, b) [0x58, 0xC3, 0xA9] (t, t.length) with | (s, .ok _) => Outcome.ok (RsS.text s) | (_, .panic) => .panic | (_, .bad w) => .bad w | (_, .err) => .err | (_, .envBad) => .envBad),
      showO (Str.replaceRange o t a b [0x58, 0xC3, 0xA9])))) out
  let fu := fun (r : RsS.SB × Outcome Unit) => showO (match r with | (s, .ok _) => Outcome.ok (RsS.text s) | (_, .panic) => .panic | (_, .bad w) => .bad w | (_, .err) => .err | (_, .envBad) => .envBad)
  let css : List (List Char) := [[], ['a'], ['a', 'é', '€', '💩'], ['€', 'b']]
  out := add (firstDiff "String: Extend<char> / from_iter_in / Extend<&str> / from_str_in" ((texts.flatMap fun t => css.map fun cs => (t, cs)).map fun (t, cs) =>
    (s!"text={repr (t.map UInt8.toNat)} chars={repr cs}",
      fu (Gen.Fn.str_extend_chars cs 2 (t, t.length)) ++ "|" ++ fu (Gen.Fn.str_from_iter_in cs (t, t.length)) ++ "|" ++
        fu (Gen.Fn.str_extend_strs (cs.map Str.encChar) (t, t.length)) ++ "|" ++ fu (Gen.Fn.str_from_str_in (Str.encode cs) (t, t.length)),
      showO (Outcome.ok (Str.extendChars t cs)) ++ "|" ++ showO (Outcome.ok (Str.fromIter cs)) ++ "|" ++
        showO (Outcome.ok (Str.extendStrs t (cs.map Str.encChar))) ++ "|" ++ showO (Outcome.ok (Str.encode cs))))) out
  let u16s : List (List Nat) := [[], [0x41], [0x41, 0xD834, 0xDD1E, 0x6D], [0xD834], [0xDD1E, 0x41], [0xD834, 0x41], [0xD834, 0xD834, 0xDD1E], [0xFFFF, 0xD7FF, 0xE000], [0xDBFF, 0xDFFF]]
  out := add (firstDiff "String::from_utf16_in" (u16s.map fun us =>
    (s!"units={repr us}", fu (Gen.Fn.str_from_utf16_in us (([] : List UInt8), 0)), showO (Str.fromUtf16 us)))) out
  -- boxed.rs step sequences
  let cells : List (List Bx.Cell) := [[], [⟨1, 10⟩], [⟨1, 10⟩, ⟨2, 20⟩, ⟨3, 30⟩]]
  let fx0 : Bx.Fx := {}
  out := add (firstDiff "Box::into_inner" (cells.map fun b => (s!"cells={repr b}", toString (repr (Gen.Fn.box_into_inner none b fx0)),
    toString (repr ((Bx.intoInner b fx0).2, (Outcome.ok (Bx.intoInner b fx0).1 : Outcome (List Bx.Cell))))))) out
  out := add (firstDiff "Box::drop" ((cells.flatMap fun b => [none, some 0, some 1].map fun pa => (b, pa)).map fun (b, pa) => (s!"cells={repr b} panicAt={repr pa}",
    toString (repr (Gen.Fn.box_drop pa b fx0)),
    toString (repr ((Bx.boxDrop b pa fx0).2, (if (Bx.boxDrop b pa fx0).1 then Outcome.panic else Outcome.ok () : Outcome Unit)))))) out
  out := add (firstDiff "Vec::into_boxed_slice" (cells.map fun b => (s!"cells={repr b}", toString (repr (Gen.Fn.vec_into_boxed_slice none b fx0)),
    toString (repr ((Bx.intoBoxedSlice b fx0).2, (Outcome.ok (Bx.intoBoxedSlice b fx0).1 : Outcome (List Bx.Cell))))))) out
  out := add (firstDiff "TryFrom<Box<[T]>> for Box<[T; N]>" ((cells.flatMap fun b => [0, 1, 3].map fun n => (b, n)).map fun (b, n) => (s!"cells={repr b} N={n}",
    toString (repr (Gen.Fn.box_slice_to_arr none n b fx0)),
    toString (repr ((Bx.sliceToArr n b fx0).2.2, (Outcome.ok (if (Bx.sliceToArr n b fx0).1 then Except.ok (Bx.sliceToArr n b fx0).2.1 else Except.error (Bx.sliceToArr n b fx0).2.1) : Outcome (Except (List Bx.Cell) (List Bx.Cell)))))))) out
  for l in out do IO.println l
  IO.println s!"GENDIFF-DONE mismatches={out.length}"
