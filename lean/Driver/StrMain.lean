/-! line-protocol driver of the Str family (placeholder until the family is built) -/
def main : IO Unit := pure ()
