import BumpVerif.Model.Str
import BumpVerif.Model.Lossy
/-!
Line-protocol driver of the `str` family: reads the trace of `bvh_str` on stdin, replays every
operation on the model (`Bump.Str`), and prints a `DIFF` line for every field (`res`, `bytes`,
`len`, `capge`) in which model and implementation disagree.
-/
open Bump Bump.Str

def hexDigitS (n : Nat) : Char := "0123456789abcdef".toList.getD n '0'

def hexValS (c : Char) : Option Nat :=
  if '0' ≤ c ∧ c ≤ '9' then some (c.toNat - '0'.toNat)
  else if 'a' ≤ c ∧ c ≤ 'f' then some (c.toNat - 'a'.toNat + 10)
  else none

def parseHexNat (s : String) : Option Nat :=
  if s.isEmpty then none else
  s.toList.foldl (fun acc c => match acc, hexValS c with
    | some a, some d => some (a * 16 + d)
    | _, _ => none) (some 0)

partial def natToHexAux (n : Nat) (acc : List Char) : List Char :=
  if n < 16 then hexDigitS n :: acc else natToHexAux (n / 16) (hexDigitS (n % 16) :: acc)

def natToHex (n : Nat) : String := String.ofList (natToHexAux n [])

def bytesHex (b : Bytes) : String :=
  if b.isEmpty then "-" else
  String.ofList (b.flatMap fun x => [hexDigitS (x.toNat / 16), hexDigitS (x.toNat % 16)])

def parseBytesAux : List Char → List UInt8 → Option (List UInt8)
  | [], acc => some acc.reverse
  | [_], _ => none
  | a :: b :: t, acc =>
    match hexValS a, hexValS b with
    | some x, some y => parseBytesAux t (UInt8.ofNat (x * 16 + y) :: acc)
    | _, _ => none

def parseBytes (s : String) : Option Bytes :=
  if s == "-" then some [] else parseBytesAux s.toList []

def cpsStr (cs : List Char) : String :=
  if cs.isEmpty then "-" else ",".intercalate (cs.map fun c => natToHex c.toNat)

def parseCps (s : String) : Option (List Char) :=
  if s == "-" then some [] else
  (s.splitOn ",").mapM fun x => (parseHexNat x).map Char.ofNat

def parseBits (s : String) : List Bool :=
  if s == "-" then [] else s.toList.map (· == '1')

def parseTexts (s : String) : Option (List Bytes) :=
  if s == "none" then some [] else (s.splitOn "+").mapM parseBytes

def parseU16s (s : String) : Option (List Nat) :=
  if s == "-" then some [] else (s.splitOn ",").mapM parseHexNat

def kvS (toks : List String) (key : String) : Option String :=
  toks.findSome? fun t =>
    if t.startsWith (key ++ "=") then some (t.drop (key.length + 1)).toString else none

def kvNatS (toks : List String) (key : String) : Option Nat := (kvS toks key).bind (·.toNat?)

def parseBd (s : String) : Option Bd :=
  if s == "u" then some .unbounded else
  match s.splitOn ":" with
  | [k, n] =>
    match n.toNat? with
    | some n => if k == "i" then some (.incl n) else if k == "e" then some (.excl n) else none
    | none => none
  | _ => none

def strBytes (s : String) : Bytes := s.toUTF8.toList

structure DSt where
  planIdx : Nat := 0
  lineNo : Nat := 0
  ovf : Bool := true
  dbg : Bool := true
  cur : Option Bytes := none
  lines : Nat := 0
  diffs : Nat := 0
  kinds : List (String × Nat) := []

def bumpKind (ks : List (String × Nat)) (k : String) : List (String × Nat) :=
  match ks with
  | [] => [(k, 1)]
  | (k', n) :: t => if k' == k then (k', n + 1) :: t else (k', n) :: bumpKind t k

/-- model result of one operation: RES text and the next state; `none` = unparsable -/
def runOp (st : DSt) (toks : List String) : Option (String × Option Bytes) := do
  let name ← toks.head?
  let outc {α} (o : Outcome α) (f : α → String × Option Bytes) : String × Option Bytes :=
    match o with
    | .ok a => f a
    | .err => ("err", st.cur)
    | .panic => ("panic", st.cur)
    | .bad w => (s!"bad:{w}", st.cur)
    | .envBad => ("envbad", st.cur)
  -- constructors and stateless operations first
  match name with
  | "s_new" => return ("unit", some [])
  | "s_with_cap" => return ("unit", some [])
  | "s_from_str" => let t ← (kvS toks "t").bind parseBytes; return ("unit", some t)
  | "s_from_iter" => let cs ← (kvS toks "cs").bind parseCps; return ("unit", some (fromIter cs))
  | "d_glue" => return ("ok", st.cur)     -- trait impls against `std`, compared in the harness; nothing for the model to say
  | "d_lossy" =>
    let b ← (kvS toks "b").bind parseBytes
    return (outc (fromUtf8Lossy st.dbg b) fun r => (s!"ok:{bytesHex r}", st.cur))
  | "d_utf8" =>
    let b ← (kvS toks "b").bind parseBytes
    return (match fromUtf8 b with
      | .ok r => (s!"ok:{bytesHex r}", st.cur)
      | .err => (s!"err:{validUpTo b}", st.cur)
      | _ => ("bad", st.cur))
  | "d_utf16" =>
    let u ← (kvS toks "u").bind parseU16s
    return (outc (fromUtf16 u) fun r => (s!"ok:{bytesHex r}", st.cur))
  | _ =>
  match st.cur with
  | none => return ("nostate", none)
  | some s =>
  match name with
  | "s_push" => let c ← (kvS toks "c").bind parseHexNat; return ("unit", some (push s (Char.ofNat c)))
  | "s_push_str" => let t ← (kvS toks "t").bind parseBytes; return ("unit", some (pushStr s t))
  | "s_pop" =>
    return (outc (pop s) fun (s', r) =>
      (match r with | some c => s!"some:{natToHex c.toNat}" | none => "none", some s'))
  | "s_insert" =>
    let i ← kvNatS toks "i"; let c ← (kvS toks "c").bind parseHexNat
    return (outc (insert s i (Char.ofNat c)) fun s' => ("unit", some s'))
  | "s_insert_str" =>
    let i ← kvNatS toks "i"; let t ← (kvS toks "t").bind parseBytes
    return (outc (insertStr s i t) fun s' => ("unit", some s'))
  | "s_remove" =>
    let i ← kvNatS toks "i"
    return (outc (remove s i) fun (s', c) => (s!"ch:{natToHex c.toNat}", some s'))
  | "s_truncate" =>
    let n ← kvNatS toks "n"
    return (outc (truncate s n) fun s' => ("unit", some s'))
  | "s_clear" => return ("unit", some (clear s))
  | "s_retain" =>
    let ans := parseBits (← kvS toks "ans")
    let p ← kvS toks "panic"
    let panicAt := if p == "none" then none else p.toNat?
    return (outc (retain s (ansOf ans) panicAt) fun r =>
      ((if r.panicked then "panic" else "unit") ++ s!" calls={r.calls}", some r.bytes))
  | "s_drain" =>
    let sb ← (kvS toks "sb").bind parseBd; let eb ← (kvS toks "eb").bind parseBd
    let take ← kvNatS toks "take"; let back ← kvNatS toks "back"
    let forget := (kvS toks "forget") == some "1"
    return (outc (drain st.ovf s sb eb take back forget) fun r =>
      (s!"yield={cpsStr r.front} yback={cpsStr r.back}", some r.bytes))
  | "s_replace_range" =>
    let sb ← (kvS toks "sb").bind parseBd; let eb ← (kvS toks "eb").bind parseBd
    let t ← (kvS toks "t").bind parseBytes
    return (outc (replaceRange st.ovf s sb eb t) fun s' => ("unit", some s'))
  | "s_split_off" =>
    let at_ ← kvNatS toks "at"
    let swap := (kvS toks "swap") == some "1"
    return (outc (splitOff s at_) fun (s', o) => (s!"other={bytesHex o}", some (if swap then o else s')))
  | "s_extend_chars" => let cs ← (kvS toks "cs").bind parseCps; return ("unit", some (extendChars s cs))
  | "s_extend_strs" => let ts ← (kvS toks "ts").bind parseTexts; return ("unit", some (extendStrs s ts))
  | "s_clone" => return (s!"clone={bytesHex (clone s)}", some s)
  | "s_index" =>
    -- `&s[range]`: every `Index` impl slices the text like `str` does (in range, both ends on char boundaries, else a panic)
    let k ← kvNatS toks "k"; let a ← kvNatS toks "a"; let b ← kvNatS toks "b"
    let lo := if k == 1 || k == 3 || k == 4 then a else 0
    let hi := if k == 0 || k == 1 then s.length else if k == 4 || k == 5 then b + 1 else b
    if lo ≤ hi && hi ≤ s.length && isCharBoundary s lo && isCharBoundary s hi then
      return (s!"text={bytesHex ((s.drop lo).take (hi - lo))}", some s)
    else return ("panic", some s)
  | "s_clone_from" => let t ← (kvS toks "t").bind parseBytes; return ("unit", some (clone t))
  | "s_write" =>
    let t ← (kvS toks "t").bind parseBytes; let v ← (kvS toks "v").bind (·.toInt?)
    return ("unit", some (pushStr s (t ++ strBytes (toString v))))
  | "s_format" =>
    let t ← (kvS toks "t").bind parseBytes; let v ← (kvS toks "v").bind (·.toInt?)
    return (s!"text={bytesHex (pushStr (pushStr (pushStr [] t) (strBytes "|")) (strBytes (toString v)))}", some s)
  | "s_into_bump_str" => return (s!"str={bytesHex (intoBumpStr s)}", none)
  | "s_reserve" =>
    let n ← kvNatS toks "n"
    -- RawVec::reserve: `capacity overflow` when `len + n` exceeds `isize::MAX`
    return (if s.length + n > ISIZE_MAX then ("panic", some s) else ("unit", some s))
  | "s_shrink" => return ("unit", some s)
  | _ => none

def obsStr : Option Bytes → String
  | none => "none"
  | some b => s!"bytes={bytesHex b} len={b.length} capge=1"

def processLine (st : DSt) (line : String) : DSt × List String :=
  let st := { st with lineNo := st.lineNo + 1 }
  let line := line.trimAscii.toString
  if line.isEmpty || line.startsWith "#" || line.startsWith "END" || line.startsWith "ORACLE" || line.startsWith "SUMMARY" then (st, [])
  else if line.startsWith "PLAN" then
    let toks := line.splitOn " "
    ({ st with planIdx := (kvNatS toks "idx").getD 0, ovf := (kvS toks "ovf") != some "0",
               dbg := (kvS toks "dbg") != some "0", cur := none }, [])
  else
    let secs := line.splitOn " | "
    let opToks := (secs.headD "").splitOn " "
    let name := opToks.headD "?"
    let sec := fun (tag : String) =>
      match secs.find? (·.startsWith (tag ++ " ")) with
      | some s => (s.drop (tag.length + 1)).toString
      | none => ""
    let iRes := sec "RES"
    let iObs := sec "OBS"
    let mk := fun (field m i : String) => s!"DIFF plan={st.planIdx} line={st.lineNo} op={name} field={field} model={m} impl={i}"
    match runOp st opToks with
    | none => ({ st with diffs := st.diffs + 1, lines := st.lines + 1 }, [mk "parse" "unparsable" "-"])
    | some (mRes, next) =>
      let isDec := name.startsWith "d_"
      -- `d_utf8` errors: the implementation also prints `error_len`, which is not modelled
      let iResCmp := if name == "d_utf8" && iRes.startsWith "err:" then
          ":".intercalate ((iRes.splitOn ":").take 2) else iRes
      let d1 := if mRes != iResCmp then [mk "res" mRes iRes] else []
      let d2 : List String :=
        if isDec then [] else
        let obsToks := iObs.splitOn " "
        match next with
        | none => if iObs != "none" then [mk "bytes" "none" iObs] else []
        | some b =>
          if iObs == "none" then [mk "bytes" (bytesHex b) "none"] else
          let cmp := fun (field m : String) =>
            let i := (kvS obsToks field).getD "?"
            if m != i then [mk field m i] else []
          cmp "bytes" (bytesHex b) ++ cmp "len" (toString b.length) ++ cmp "capge" "1"
      let ds := d1 ++ d2
      -- continue from the implementation's state when anything differed; a string that is
      -- not UTF-8 is never used again (the harness drops it as well)
      let next' : Option Bytes :=
        if isDec then st.cur
        else if ds.isEmpty then next
        else if iObs == "none" then none
        else (kvS (iObs.splitOn " ") "bytes").bind parseBytes
      let next' := match next' with
        | some b => if validate b then some b else none
        | none => none
      let kind := name ++ ":" ++ ((mRes.splitOn " ").headD "" |>.splitOn ":" |>.headD "" |>.splitOn "=" |>.headD "")
      ({ st with cur := next', lines := st.lines + 1, diffs := st.diffs + ds.length, kinds := bumpKind st.kinds kind }, ds)

partial def loopS (h : IO.FS.Stream) (st : DSt) : IO DSt := do
  let line ← h.getLine
  if line.isEmpty then return st
  let (st', outs) := processLine st line
  for o in outs do IO.println o
  loopS h st'

def main : IO Unit := do
  let st ← loopS (← IO.getStdin) {}
  let ks := ",".intercalate (st.kinds.map fun (k, n) => s!"{k}={n}")
  IO.println s!"DRIVER lines={st.lines} diffs={st.diffs} kinds={ks}"
