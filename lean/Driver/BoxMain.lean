/-! line-protocol driver of the Box family (placeholder until the family is built) -/
def main : IO Unit := pure ()
