import BumpVerif.Model.Box
/-!
Line-protocol driver of the Box family: reads the trace written by `bvh_box` on stdin, replays
every operation on the ownership machine (`BumpVerif.Model.Box`) and prints a `DIFF` line for
every field (`res`, `owned`, `drops`, `moved`, `ab`, `chunks`, `used`, `evt`) in which model and
implementation disagree.  The only inputs taken from the implementation's side of a line are the
arena figures after a call that went into the arena (`env=ab,chunks,used,evt`): how much the
arena hands out is the arena family's business, not this model's.  After the first diverging
line of a plan the rest of that plan is skipped (the states no longer correspond).
-/
open Bump.Bx

def kv (toks : List String) (key : String) : Option String :=
  toks.findSome? fun t =>
    if t.startsWith (key ++ "=") then some (t.drop (key.length + 1)).toString else none

def kvNat (toks : List String) (key : String) : Option Nat := (kv toks key).bind (·.toNat?)

def parseList (s : String) : List Nat :=
  if s == "-" || s.isEmpty then [] else (s.splitOn ",").filterMap (·.toNat?)

def hexVal (c : Char) : Nat :=
  if c.isDigit then c.toNat - 48 else if 'a' ≤ c ∧ c ≤ 'f' then c.toNat - 87 else 0

def parseHex (s : String) : List Nat :=
  if s == "-" then [] else
  let rec go : List Char → List Nat
    | a :: b :: rest => (hexVal a * 16 + hexVal b) :: go rest
    | _ => []
  go s.toList

structure DState where
  planIdx : Nat := 0
  z : Bool := false
  w : W := W.init 4
  dead : Bool := false       -- a line of this plan already diverged
  lineNo : Nat := 0
  lines : Nat := 0
  diffs : Nat := 0
  kinds : List (String × Nat) := []

def bumpK (ks : List (String × Nat)) (k : String) : List (String × Nat) :=
  match ks with
  | [] => [(k, 1)]
  | (k', n) :: rest => if k' == k then (k', n + 1) :: rest else (k', n) :: bumpK rest k

/-- operation text → model operation (`z`: element values are immaterial, taken as 0) -/
def parseOp (z : Bool) (toks : List String) : Option Op := do
  let name ← toks.head?
  let n := fun k => (kvNat toks k).getD 0
  let ev := fun k => if z then 0 else n k        -- an element value
  let xs := (parseList ((kv toks "xs").getD "-")).map fun x => if z then 0 else x
  let s := n "s"
  match name with
  | "new" => some (.new s (ev "x") (n "t"))
  | "pin" => some (.pin s (ev "x"))
  | "new_arr" => some (.newArr s xs)
  | "from_iter" => some (.fromIter s xs)
  | "vec" => some (.vec s xs (if z then 2 ^ 64 - 1 else min (max (n "cap") xs.length) 64))
  | "new_any" => some (.newAny s (ev "x") (n "t"))
  | "new_fn" => some (.newFn s (ev "x"))
  | "new_str" => some (.newStr s (parseHex ((kv toks "t").getD "-")))
  | "default_slice" => some (.defaultSlice s)
  | "default_str" => some (.defaultStr s)
  | "drop" => some (.drop s (kvNat toks "dpanic"))
  | "into_inner" => some (.intoInner s)
  | "into_raw" => some (.intoRaw s)
  | "from_raw" => some (.fromRaw s)
  | "leak" => some (.leak s)
  | "to_any" => some (.toAny s)
  | "downcast" => some (.downcast s (n "t"))
  | "into_pin" => some (.intoPin s)
  | "unpin" => some (.unpin s)
  | "arr_to_slice" => some (.arrToSlice s)
  | "slice_to_arr" => some (.sliceToArr s (n "n"))
  | "into_boxed_slice" => some (.intoBoxedSlice s)
  | "from_vec" => some (.fromVec s)
  | "slice_to_vec" => some (.sliceToVec s)
  | "vec_push" => some (.vecPush s (ev "x"))
  | "read" => some (.read s)
  | "views" => some (.views s)
  | "write" => some (.write s (n "i") (ev "x"))
  | "call" => some (.call s (n "x"))
  | "cmp" => some (.cmp (n "a") (n "b"))
  | "fmt" => some (.fmt s)
  | "hash" => some (.hash s)
  | "ptrfmt" => some (.ptrfmt s)
  | "iter_probe" => some (.iterProbe (n "lo") (n "hi") (n "n"))
  | "poll_probe" => some (.pollProbe (n "x"))
  | "hasher_probe" => some (.hasherProbe (n "x"))
  | _ => none

def splitSections (line : String) : List String := (line.splitOn " | ").map (·.trimAscii.toString)
def sectionOf (secs : List String) (tag : String) : String :=
  match secs.find? (·.startsWith (tag ++ " ")) with
  | some s => (s.drop (tag.length + 1)).toString
  | none => ""

def parseEnv (w : W) (toks : List String) : Env :=
  match (kv toks "env").map (·.splitOn ",") with
  | some [a, b, c, d] => ⟨⟨a.toNat?.getD 0, b.toNat?.getD 0, c.toNat?.getD 0⟩, d.toNat?.getD 0⟩
  | _ => ⟨w.acct, 0⟩

def processLine (st : DState) (line : String) : DState × List String :=
  let st := { st with lineNo := st.lineNo + 1 }
  let line := line.trimAscii.toString
  if line.isEmpty || line.startsWith "#" || line.startsWith "ORACLE" || line.startsWith "SUMMARY" then (st, [])
  else if line.startsWith "PLAN" then
    let toks := line.splitOn " "
    ({ st with planIdx := (kvNat toks "idx").getD 0, z := (kv toks "kind") == some "Z",
               w := W.init ((kvNat toks "ns").getD 4), dead := false }, [])
  else if st.dead then (st, [])
  else
    let mk := fun (name field m i : String) => s!"DIFF plan={st.planIdx} line={st.lineNo} op={name} field={field} model={m} impl={i}"
    if line.startsWith "END" then
      let toks := line.splitOn " "
      let m := showIds st.z (endDrops st.w)
      let i := (kv toks "drops").getD "[]"
      let ds := if m != i then [mk "end" "drops" m i] else []
      ({ st with diffs := st.diffs + ds.length, dead := true }, ds)
    else
      let secs := splitSections line
      let opToks := (secs.headD "").splitOn " "
      let name := opToks.headD "?"
      let iRes := sectionOf secs "RES"
      let iObs := sectionOf secs "OBS"
      let obsToks := iObs.splitOn " "
      match parseOp st.z opToks with
      | none => ({ st with diffs := st.diffs + 1, dead := true }, [mk name "parse" "unknown-operation" "-"])
      | some op =>
        let w := st.w
        let env := parseEnv w opToks
        let (eff, mRes) := effOf st.z op w
        let w' := applyEff env eff w
        let cmpF := fun (field m : String) =>
          let i := (kv obsToks field).getD "?"
          if m != i then [mk name field m i] else []
        let d1 := if mRes != iRes then [mk name "res" mRes iRes] else []
        let mOwned := "[" ++ ";".intercalate (w'.slots.map (showSlot st.z)) ++ "]"
        let ds := d1 ++ cmpF "owned" mOwned
          ++ cmpF "drops" (showIds st.z (w'.drops.drop w.drops.length))
          ++ cmpF "moved" (showIds st.z (w'.moved.drop w.moved.length))
          ++ cmpF "ab" (toString w'.acct.ab) ++ cmpF "chunks" (toString w'.acct.chunks) ++ cmpF "used" (toString w'.acct.used)
          ++ cmpF "evt" (toString (evtOf env eff))
        let kind := name ++ ":" ++ (mRes.splitOn " ").headD ""
        ({ st with w := w', lines := st.lines + 1, diffs := st.diffs + ds.length, dead := !ds.isEmpty, kinds := bumpK st.kinds kind }, ds)

partial def loop (h : IO.FS.Stream) (st : DState) : IO DState := do
  let line ← h.getLine
  if line.isEmpty then return st
  let (st', outs) := processLine st line
  for o in outs do IO.println o
  loop h st'

def main : IO Unit := do
  let st ← loop (← IO.getStdin) {}
  let ks := ",".intercalate (st.kinds.map fun (k, n) => s!"{k}={n}")
  IO.println s!"DRIVER lines={st.lines} diffs={st.diffs} kinds={ks}"
