import BumpVerif.Model.Basic
import BumpVerif.Model.Arena
