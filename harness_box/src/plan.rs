//! Plan grammar (replayable input, no addresses), text form, parser and generator.
//!
//! An operation is `name key=value …`.  `s=`/`a=`/`b=` name slots of the program's variable
//! table; every slot holds one value (a box, a pinned box, a boxed array/slice/str/trait
//! object, an arena Vec, a raw pointer obtained from `into_raw`, a leaked reference) or is empty.
use crate::util::*;

#[derive(Clone, Debug)]
pub struct Op {
    pub name: String,
    pub args: Vec<(String, String)>,
}

impl Op {
    pub fn new(name: &str) -> Op {
        Op { name: name.to_string(), args: vec![] }
    }
    pub fn with(mut self, k: &str, v: impl ToString) -> Op {
        self.args.push((k.to_string(), v.to_string()));
        self
    }
    pub fn with_xs(self, k: &str, xs: &[u32]) -> Op {
        let t = if xs.is_empty() { "-".to_string() } else { xs.iter().map(|x| x.to_string()).collect::<Vec<_>>().join(",") };
        self.with(k, t)
    }
    pub fn get(&self, k: &str) -> Option<&str> {
        self.args.iter().find(|(a, _)| a == k).map(|(_, v)| v.as_str())
    }
    pub fn u(&self, k: &str) -> usize {
        self.get(k).and_then(parse_usize).unwrap_or(0)
    }
    pub fn x(&self, k: &str) -> u32 {
        self.u(k) as u32
    }
    pub fn opt(&self, k: &str) -> Option<u32> {
        self.get(k).and_then(parse_usize).map(|v| v as u32)
    }
    pub fn xs(&self, k: &str) -> Vec<u32> {
        match self.get(k) {
            None | Some("-") | Some("") => vec![],
            Some(t) => t.split(',').filter_map(|p| p.parse().ok()).collect(),
        }
    }
    pub fn text(&self) -> String {
        let mut s = self.name.clone();
        for (k, v) in &self.args {
            s.push(' ');
            s.push_str(k);
            s.push('=');
            s.push_str(v);
        }
        s
    }
    pub fn parse(line: &str) -> Option<Op> {
        let mut it = line.split_whitespace();
        let name = it.next()?;
        let mut op = Op::new(name);
        for t in it {
            if let Some((k, v)) = t.split_once('=') {
                if k == "env" {
                    continue; // observation of a previous run, not an input
                }
                op.args.push((k.to_string(), v.to_string()));
            }
        }
        Some(op)
    }
}

#[derive(Clone, Debug)]
pub struct Plan {
    pub idx: usize,
    pub seed: u64,
    pub kind: char, // 'E' sized elements, 'Z' zero-sized elements
    pub ns: usize,  // number of slots
    pub ops: Vec<Op>,
}

impl Plan {
    pub fn header(&self) -> String {
        format!("PLAN idx={} seed={} kind={} ns={}", self.idx, self.seed, self.kind, self.ns)
    }
    /// one or more plans; each starts with a `PLAN` line; op lines may carry ` | RES …` tails
    pub fn parse(text: &str) -> Vec<Plan> {
        let mut out: Vec<Plan> = vec![];
        for raw in text.lines() {
            let line = raw.split(" | ").next().unwrap_or("").trim();
            if line.is_empty() || line.starts_with('#') || line.starts_with("ORACLE") || line.starts_with("SUMMARY") || line.starts_with("END") {
                continue;
            }
            if line.starts_with("PLAN") {
                let toks: Vec<&str> = line.split_whitespace().collect();
                out.push(Plan {
                    idx: kv_usize(&toks, "idx").unwrap_or(out.len()),
                    seed: kv(&toks, "seed").and_then(|s| s.parse().ok()).unwrap_or(0),
                    kind: kv(&toks, "kind").and_then(|s| s.chars().next()).unwrap_or('E'),
                    ns: kv_usize(&toks, "ns").unwrap_or(4).clamp(1, 16),
                    ops: vec![],
                });
                continue;
            }
            if out.is_empty() {
                out.push(Plan { idx: 0, seed: 0, kind: 'E', ns: 4, ops: vec![] });
            }
            if let Some(op) = Op::parse(line) {
                out.last_mut().unwrap().ops.push(op);
            }
        }
        out
    }
}

#[derive(Clone, Copy, Debug, PartialEq, Eq)]
pub enum Profile {
    General,
    Convert,
    Any,
    Panics,
    Deleg,
    Zst,
}
pub fn profile_from_str(s: &str) -> Profile {
    match s {
        "convert" => Profile::Convert,
        "any" => Profile::Any,
        "panics" => Profile::Panics,
        "deleg" => Profile::Deleg,
        "zst" => Profile::Zst,
        _ => Profile::General,
    }
}
pub fn kind_of(p: Profile, r: &mut Rng) -> char {
    match p {
        Profile::Zst => 'Z',
        _ => {
            if r.chance(1, 8) {
                'Z'
            } else {
                'E'
            }
        }
    }
}

/// slot kinds as the generator sees them
#[derive(Clone, Copy, Debug, PartialEq, Eq)]
pub enum K {
    Empty,
    Box(u8),
    Pin,
    Arr(usize),
    Slice(usize, bool), // len, capacity known
    Any(u8),
    Fun,
    Vec(usize, bool), // len, has spare capacity
    Str,
    Raw(u8),
    RawSlice,
    Leak(u8),
    LeakSlice,
}

fn small_val(r: &mut Rng) -> u32 {
    match r.below(10) {
        0 => 0,
        1 => u32::MAX,
        2..=6 => r.below(5) as u32,
        _ => r.below(1000) as u32,
    }
}
fn vals(r: &mut Rng, n: usize) -> Vec<u32> {
    (0..n).map(|_| small_val(r)).collect()
}
fn word(r: &mut Rng) -> String {
    let n = r.below(6) as usize;
    let alpha = b"abcxyz019_";
    let bytes: Vec<u8> = (0..n).map(|_| alpha[r.below(alpha.len() as u64) as usize]).collect();
    if bytes.is_empty() {
        "-".to_string()
    } else {
        bytes.iter().map(|b| format!("{:02x}", b)).collect()
    }
}

/// next operation, given the kinds of the slots right now
pub fn gen_op(p: Profile, kinds: &[K], r: &mut Rng) -> Op {
    let ns = kinds.len();
    let empties: Vec<usize> = (0..ns).filter(|i| kinds[*i] == K::Empty).collect();
    let full: Vec<usize> = (0..ns).filter(|i| kinds[*i] != K::Empty).collect();
    let pick = |r: &mut Rng, v: &[usize]| v[r.below(v.len() as u64) as usize];
    // construct when there is room (more eagerly when little is alive)
    let want_new = !empties.is_empty() && (full.is_empty() || r.chance(if full.len() * 2 < ns { 5 } else { 2 }, 10));
    if want_new {
        let s = pick(r, &empties);
        let w: &[u32] = match p {
            //          new pin arr iter vec any fn str dflt
            Profile::General => &[6, 2, 4, 4, 4, 3, 1, 2, 1],
            Profile::Convert => &[1, 0, 8, 6, 8, 0, 0, 0, 2],
            Profile::Any => &[5, 0, 0, 0, 0, 10, 2, 0, 0],
            Profile::Panics => &[5, 1, 6, 6, 6, 2, 2, 0, 0],
            Profile::Deleg => &[8, 1, 2, 6, 0, 0, 1, 6, 2],
            Profile::Zst => &[5, 2, 5, 5, 5, 3, 1, 0, 1],
        };
        return match r.weighted(w) {
            0 => Op::new("new").with("s", s).with("x", small_val(r)).with("t", if r.chance(1, 5) { 1 } else { 0 }),
            1 => Op::new("pin").with("s", s).with("x", small_val(r)),
            2 => {
                let n = r.below(5) as usize;
                Op::new("new_arr").with("s", s).with_xs("xs", &vals(r, n))
            }
            3 => {
                let n = if r.chance(1, 6) { 0 } else { r.below(7) as usize };
                Op::new("from_iter").with("s", s).with_xs("xs", &vals(r, n))
            }
            4 => {
                let n = if r.chance(1, 6) { 0 } else { r.below(6) as usize };
                let cap = n + if r.chance(1, 2) { 0 } else { r.below(5) as usize };
                Op::new("vec").with("s", s).with_xs("xs", &vals(r, n)).with("cap", cap)
            }
            5 => Op::new("new_any").with("s", s).with("x", small_val(r)).with("t", r.below(2)),
            6 => Op::new("new_fn").with("s", s).with("x", small_val(r)),
            7 => Op::new("new_str").with("s", s).with("t", word(r)),
            _ => Op::new(if r.chance(1, 2) { "default_slice" } else { "default_str" }).with("s", s),
        };
    }
    if full.is_empty() {
        return Op::new("iter_probe").with("lo", r.below(5)).with("hi", r.below(9)).with("n", r.below(4));
    }
    // stateless probes of the delegating trait impls
    let probe_w = if p == Profile::Deleg { 12 } else { 3 };
    if r.chance(probe_w, 100) {
        return match r.below(3) {
            0 => Op::new("iter_probe").with("lo", r.below(5)).with("hi", r.below(9)).with("n", r.below(4)),
            1 => Op::new("poll_probe").with("x", small_val(r)),
            _ => Op::new("hasher_probe").with("x", small_val(r)),
        };
    }
    // rarely: an operation aimed at a slot of the wrong kind (must be a no-op `skip`)
    if r.chance(1, 40) {
        let s = r.below(ns as u64) as usize;
        let names = ["drop", "into_inner", "into_raw", "from_raw", "leak", "downcast", "arr_to_slice", "slice_to_arr", "into_boxed_slice",
            "from_vec", "slice_to_vec", "into_pin", "unpin", "to_any", "vec_push", "call", "write", "read"];
        return Op::new(names[r.below(names.len() as u64) as usize]).with("s", s).with("t", r.below(3)).with("n", r.below(5)).with("i", r.below(3)).with("x", 7);
    }
    let s = pick(r, &full);
    let dpanic = |r: &mut Rng, n: usize| -> Option<u32> {
        let ch = if p == Profile::Panics { 50 } else { 4 };
        if r.chance(ch, 100) {
            {
                let extra = if r.chance(1, 6) { 1 } else { 0 };
                Some(r.below((n as u64).max(1) + extra) as u32)
            }
        } else {
            None
        }
    };
    let drop_op = |r: &mut Rng, n: usize| {
        let op = Op::new("drop").with("s", s);
        match dpanic(r, n) {
            Some(k) => op.with("dpanic", k),
            None => op,
        }
    };
    let deleg = p == Profile::Deleg;
    let other_same = |r: &mut Rng, pred: &dyn Fn(K) -> bool| -> usize {
        let c: Vec<usize> = (0..ns).filter(|i| pred(kinds[*i])).collect();
        if c.is_empty() {
            s
        } else {
            c[r.below(c.len() as u64) as usize]
        }
    };
    let access = |r: &mut Rng, n: usize| -> Op {
        match r.below(4) {
            0 => Op::new("read").with("s", s),
            1 => Op::new(if matches!(kinds[s], K::Box(0) | K::Slice(..)) { "views" } else { "read" }).with("s", s),
            2 => Op::new(if matches!(kinds[s], K::Box(0) | K::Pin | K::Slice(..) | K::Arr(_)) { "fmt" } else { "read" }).with("s", s),
            _ => {
                let extra = if r.chance(1, 8) { 1 } else { 0 };
                Op::new("write").with("s", s).with("i", r.below(n.max(1) as u64 + extra)).with("x", small_val(r))
            }
        }
    };
    match kinds[s] {
        K::Empty => unreachable!(),
        K::Box(t) => {
            //  drop inner raw leak any pin access cmp hash ptr
            let w: &[u32] = if deleg { &[2, 1, 1, 1, 1, 1, 8, 8, 4, 2] } else if p == Profile::Any { &[3, 2, 1, 1, 10, 0, 2, 0, 0, 0] } else { &[6, 5, 4, 3, 3, 3, 5, 2, 1, 1] };
            match r.weighted(w) {
                0 => drop_op(r, 1),
                1 => Op::new("into_inner").with("s", s),
                2 => Op::new("into_raw").with("s", s),
                3 => Op::new("leak").with("s", s),
                4 => Op::new("to_any").with("s", s),
                5 => Op::new(if t == 0 { "into_pin" } else { "to_any" }).with("s", s),
                6 => access(r, 1),
                7 => {
                    if t == 0 {
                        Op::new("cmp").with("a", s).with("b", other_same(r, &|k| matches!(k, K::Box(0))))
                    } else {
                        Op::new("read").with("s", s)
                    }
                }
                8 => Op::new("hash").with("s", s),
                _ => Op::new("ptrfmt").with("s", s),
            }
        }
        K::Pin => match r.below(4) {
            0 => drop_op(r, 1),
            1 => Op::new("unpin").with("s", s),
            _ => access(r, 1),
        },
        K::Arr(n) => match r.weighted(&[3, 6, 3, 1]) {
            0 => drop_op(r, n),
            1 => Op::new("arr_to_slice").with("s", s),
            2 => access(r, n),
            _ => Op::new("fmt").with("s", s),
        },
        K::Slice(n, capk) => {
            //  drop toarr raw leak tovec access cmp hash ptr
            let w: &[u32] = if deleg { &[2, 1, 1, 1, 1, 8, 8, 4, 2] } else { &[5, 6, 3, 2, 4, 5, 2, 1, 1] };
            match r.weighted(w) {
                0 => drop_op(r, n),
                1 => {
                    let m = if n <= 4 && r.chance(3, 5) { n } else { r.below(6) as usize };
                    Op::new("slice_to_arr").with("s", s).with("n", m)
                }
                2 => Op::new("into_raw").with("s", s),
                3 => Op::new("leak").with("s", s),
                4 => Op::new("slice_to_vec").with("s", s),
                5 => access(r, n),
                6 => Op::new("cmp").with("a", s).with("b", other_same(r, &|k| matches!(k, K::Slice(..)))),
                7 => Op::new("hash").with("s", s),
                _ => Op::new("ptrfmt").with("s", s),
            }
        }
        K::Any(t) => match r.weighted(&[3, 5, 5, 2]) {
            0 => drop_op(r, 1),
            1 => Op::new("downcast").with("s", s).with("t", t),
            2 => Op::new("downcast").with("s", s).with("t", r.below(3)),
            _ => access(r, 1),
        },
        K::Fun => match r.below(3) {
            0 => drop_op(r, 1),
            _ => Op::new("call").with("s", s).with("x", small_val(r)),
        },
        K::Vec(n, spare) => match r.weighted(&[2, 5, 4, 3, 2]) {
            0 => drop_op(r, n),
            1 => Op::new("into_boxed_slice").with("s", s),
            2 => Op::new("from_vec").with("s", s),
            3 => Op::new(if spare { "vec_push" } else { "into_boxed_slice" }).with("s", s).with("x", small_val(r)),
            _ => access(r, n),
        },
        K::Str => match r.weighted(&[2, 3, 3, 2, 1]) {
            0 => Op::new("drop").with("s", s),
            1 => Op::new("fmt").with("s", s),
            2 => Op::new("cmp").with("a", s).with("b", other_same(r, &|k| k == K::Str)),
            3 => Op::new("hash").with("s", s),
            _ => Op::new("read").with("s", s),
        },
        K::Raw(_) | K::RawSlice => match r.below(4) {
            0 => Op::new("read").with("s", s),
            _ => Op::new("from_raw").with("s", s),
        },
        K::Leak(_) | K::LeakSlice => match r.below(5) {
            0 => Op::new("read").with("s", s),
            1 => Op::new("write").with("s", s).with("i", 0).with("x", small_val(r)),
            2 | 3 => Op::new("from_raw").with("s", s),
            _ => Op::new("read").with("s", s),
        },
    }
}
