//! The same variable table and operations on `std::boxed::Box` / `std::vec::Vec` (the reference run).
//! Derived from bside.rs; `cr` is the identity here.
use crate::elems::*;
use crate::plan::{Op, K};
use crate::bside::{cmp_text, hash_of, hex_of, opt_u, ord_ch, unhex, Out};
use std::any::Any;
use std::borrow::{Borrow, BorrowMut};
use std::collections::hash_map::DefaultHasher;
use std::convert::TryFrom;
use std::future::Future;
use std::hash::{Hash, Hasher};
use std::pin::Pin;

pub type DynFn = dyn Fn(u32) -> u32;
#[inline(always)]
fn cr<R>(f: impl FnOnce() -> R) -> R {
    f()
}

pub enum SS<T: Cellish> {
    Empty,
    Box0(Box<T>),
    Box1(Box<Wrap<T>>),
    Pin(Pin<Box<T>>),
    Arr0(Box<[T; 0]>, Option<usize>),
    Arr1(Box<[T; 1]>, Option<usize>),
    Arr2(Box<[T; 2]>, Option<usize>),
    Arr3(Box<[T; 3]>, Option<usize>),
    Arr4(Box<[T; 4]>, Option<usize>),
    /// boxed slice + (ghost) capacity of the block it sits in, when known
    Slice(Box<[T]>, Option<usize>),
    Any(Box<dyn Any>),
    /// boxed closure that captured an element (id and value noted on the side)
    Fun(Box<DynFn>, u64, u32),
    Vec(Vec<T>),
    Str(Box<str>),
    Raw0(*mut T),
    Raw1(*mut Wrap<T>),
    RawSlice(*mut [T], Option<usize>),
    Leak0(&'static mut T),
    Leak1(&'static mut Wrap<T>),
    LeakSlice(&'static mut [T], Option<usize>),
}

impl<T: Cellish> SS<T> {
    /// the elements reachable through this slot, read from memory through the real pointer
    pub fn cells(&self) -> String {
        unsafe {
            match self {
                SS::Empty | SS::Str(_) => String::new(),
                SS::Box0(b) => show_cell(&**b),
                SS::Box1(b) => show_cell(&(**b).0),
                SS::Pin(p) => show_cell(&**p),
                SS::Arr0(b, _) => show_cells(&b[..]),
                SS::Arr1(b, _) => show_cells(&b[..]),
                SS::Arr2(b, _) => show_cells(&b[..]),
                SS::Arr3(b, _) => show_cells(&b[..]),
                SS::Arr4(b, _) => show_cells(&b[..]),
                SS::Slice(b, _) => show_cells(&b[..]),
                SS::Any(b) => {
                    if let Some(e) = (**b).downcast_ref::<T>() {
                        show_cell(e)
                    } else if let Some(w) = (**b).downcast_ref::<Wrap<T>>() {
                        show_cell(&w.0)
                    } else {
                        "?".to_string()
                    }
                }
                SS::Fun(_, id, val) => {
                    if T::Z {
                        "z".to_string()
                    } else {
                        format!("{}:{}", id, val)
                    }
                }
                SS::Vec(v) => show_cells(&v[..]),
                SS::Raw0(p) => show_cell(&**p),
                SS::Raw1(p) => show_cell(&(**p).0),
                SS::RawSlice(p, _) => show_cells(&(**p)[..]),
                SS::Leak0(r) => show_cell(&**r),
                SS::Leak1(r) => show_cell(&r.0),
                SS::LeakSlice(r, _) => show_cells(&r[..]),
            }
        }
    }
    fn any_tag(b: &Box<dyn Any>) -> u8 {
        if (**b).is::<T>() {
            0
        } else if (**b).is::<Wrap<T>>() {
            1
        } else {
            9
        }
    }
    pub fn show(&self) -> String {
        let c = self.cells();
        match self {
            SS::Empty => "-".to_string(),
            SS::Box0(_) => format!("B0({})", c),
            SS::Box1(_) => format!("B1({})", c),
            SS::Pin(_) => format!("P({})", c),
            SS::Arr0(..) | SS::Arr1(..) | SS::Arr2(..) | SS::Arr3(..) | SS::Arr4(..) => format!("A[{}]", c),
            SS::Slice(..) => format!("S[{}]", c),
            SS::Any(b) => format!("Y{}({})", Self::any_tag(b), c),
            SS::Fun(..) => format!("F({})", c),
            SS::Vec(_) => format!("V[{}]", c),
            SS::Str(b) => format!("T{}", hex_of(&**b)),
            SS::Raw0(_) => format!("R0({})", c),
            SS::Raw1(_) => format!("R1({})", c),
            SS::RawSlice(..) => format!("RS[{}]", c),
            SS::Leak0(_) => format!("L0({})", c),
            SS::Leak1(_) => format!("L1({})", c),
            SS::LeakSlice(..) => format!("LS[{}]", c),
        }
    }
    pub fn kind(&self) -> K {
        match self {
            SS::Empty => K::Empty,
            SS::Box0(_) => K::Box(0),
            SS::Box1(_) => K::Box(1),
            SS::Pin(_) => K::Pin,
            SS::Arr0(..) => K::Arr(0),
            SS::Arr1(..) => K::Arr(1),
            SS::Arr2(..) => K::Arr(2),
            SS::Arr3(..) => K::Arr(3),
            SS::Arr4(..) => K::Arr(4),
            SS::Slice(b, c) => K::Slice(b.len(), c.is_some()),
            SS::Any(b) => K::Any(Self::any_tag(b)),
            SS::Fun(..) => K::Fun,
            SS::Vec(v) => K::Vec(v.len(), v.len() < v.capacity()),
            SS::Str(_) => K::Str,
            SS::Raw0(_) => K::Raw(0),
            SS::Raw1(_) => K::Raw(1),
            SS::RawSlice(..) => K::RawSlice,
            SS::Leak0(_) => K::Leak(0),
            SS::Leak1(_) => K::Leak(1),
            SS::LeakSlice(..) => K::LeakSlice,
        }
    }
    /// does dropping the slot's value run destructors (i.e. is it an owner)?
    pub fn is_owner(&self) -> bool {
        !matches!(self, SS::Empty | SS::Raw0(_) | SS::Raw1(_) | SS::RawSlice(..) | SS::Leak0(_) | SS::Leak1(_) | SS::LeakSlice(..))
    }
}

fn out(res: impl Into<String>) -> Out {
    Out { res: res.into(), aux: String::new(), moved: 0 }
}
fn skip() -> Out {
    out("skip")
}

fn mk_arr<T: Cellish, const N: usize>(id0: u64, xs: &[u32]) -> [T; N] {
    std::array::from_fn(|k| T::mk(id0 + k as u64, xs[k]))
}
macro_rules! take {
    ($slots:expr, $s:expr) => {
        std::mem::replace(&mut $slots[$s], SS::Empty)
    };
}

/// Execute one operation on the std side.  `pending` receives values moved out to the caller.
pub fn apply_s<T: Cellish>(op: &Op, slots: &mut Vec<SS<T>>, id0: u64, pending: &mut Vec<T>) -> Out {
    let ns = slots.len();
    let s = op.u("s");
    if s >= ns {
        return skip();
    }
    let x = op.x("x");
    let empty = matches!(slots[s], SS::Empty);
    match op.name.as_str() {
        // ------------------------------------------------------------------ constructors
        "new" => {
            if !empty {
                return skip();
            }
            slots[s] = if op.u("t") == 1 { SS::Box1(cr(|| Box::new(Wrap(T::mk(id0, x))))) } else { SS::Box0(cr(|| Box::new(T::mk(id0, x)))) };
            out("ok")
        }
        "pin" => {
            if !empty {
                return skip();
            }
            slots[s] = SS::Pin(cr(|| Box::pin(T::mk(id0, x))));
            out("ok")
        }
        "new_arr" => {
            let xs = op.xs("xs");
            if !empty || xs.len() > 4 {
                return skip();
            }
            slots[s] = match xs.len() {
                0 => SS::Arr0(cr(|| Box::new(mk_arr::<T, 0>(id0, &xs))), Some(0)),
                1 => SS::Arr1(cr(|| Box::new(mk_arr::<T, 1>(id0, &xs))), Some(1)),
                2 => SS::Arr2(cr(|| Box::new(mk_arr::<T, 2>(id0, &xs))), Some(2)),
                3 => SS::Arr3(cr(|| Box::new(mk_arr::<T, 3>(id0, &xs))), Some(3)),
                _ => SS::Arr4(cr(|| Box::new(mk_arr::<T, 4>(id0, &xs))), Some(4)),
            };
            out("ok")
        }
        "from_iter" => {
            if !empty {
                return skip();
            }
            let xs = op.xs("xs");
            let it = xs.iter().enumerate().map(|(k, v)| T::mk(id0 + k as u64, *v));
            slots[s] = SS::Slice(cr(|| it.collect::<Box<[T]>>()), None);
            out("ok")
        }
        "vec" => {
            if !empty {
                return skip();
            }
            let xs = op.xs("xs");
            let cap = op.u("cap").max(xs.len()).min(64);
            let v = cr(|| {
                let mut v = Vec::with_capacity(cap);
                for (k, val) in xs.iter().enumerate() {
                    v.push(T::mk(id0 + k as u64, *val));
                }
                v
            });
            slots[s] = SS::Vec(v);
            out("ok")
        }
        "new_any" => {
            if !empty {
                return skip();
            }
            let b: Box<dyn Any> = if op.u("t") == 1 {
                cr(|| unsafe { Box::from_raw(Box::into_raw(Box::new(Wrap(T::mk(id0, x)))) as *mut dyn Any) })
            } else {
                cr(|| unsafe { Box::from_raw(Box::into_raw(Box::new(T::mk(id0, x))) as *mut dyn Any) })
            };
            slots[s] = SS::Any(b);
            out("ok")
        }
        "new_fn" => {
            if !empty {
                return skip();
            }
            let e = T::mk(id0, x);
            let f = move |y: u32| y.wrapping_add(e.val());
            let b: Box<DynFn> = cr(|| unsafe { Box::from_raw(Box::into_raw(Box::new(f)) as *mut DynFn) });
            slots[s] = SS::Fun(b, id0, if T::Z { 0 } else { x });
            out("ok")
        }
        "new_str" => {
            if !empty {
                return skip();
            }
            let t = unhex(op.get("t").unwrap_or("-"));
            slots[s] = SS::Str(cr(|| Box::<str>::from(t.as_str())));
            out("ok")
        }
        "default_slice" => {
            if !empty {
                return skip();
            }
            slots[s] = SS::Slice(cr(|| Box::<[T]>::default()), Some(0));
            out("ok")
        }
        "default_str" => {
            if !empty {
                return skip();
            }
            slots[s] = SS::Str(cr(|| Box::<str>::default()));
            out("ok")
        }
        // ------------------------------------------------------------------ ownership transfers
        "drop" => {
            if !slots[s].is_owner() {
                return skip();
            }
            let old = take!(slots, s);
            cr(|| drop(old));
            out("ok")
        }
        "into_inner" => match take!(slots, s) {
            SS::Box0(b) => {
                let v: T = cr(|| *b);
                let r = format!("ok {}", show_cell(&v));
                pending.push(v);
                Out { res: r, aux: String::new(), moved: 1 }
            }
            SS::Box1(b) => {
                let v: Wrap<T> = cr(|| *b);
                let r = format!("ok {}", show_cell(&v.0));
                pending.push(v.0);
                Out { res: r, aux: String::new(), moved: 1 }
            }
            o => {
                slots[s] = o;
                skip()
            }
        },
        "into_raw" => {
            slots[s] = match take!(slots, s) {
                SS::Box0(b) => SS::Raw0(cr(|| Box::into_raw(b))),
                SS::Box1(b) => SS::Raw1(cr(|| Box::into_raw(b))),
                SS::Slice(b, c) => SS::RawSlice(cr(|| Box::into_raw(b)), c),
                o => {
                    slots[s] = o;
                    return skip();
                }
            };
            out("ok")
        }
        "from_raw" => {
            slots[s] = unsafe {
                match take!(slots, s) {
                    SS::Raw0(p) => SS::Box0(cr(|| Box::from_raw(p))),
                    SS::Raw1(p) => SS::Box1(cr(|| Box::from_raw(p))),
                    SS::RawSlice(p, c) => SS::Slice(cr(|| Box::from_raw(p)), c),
                    SS::Leak0(r) => SS::Box0(cr(|| Box::from_raw(r as *mut T))),
                    SS::Leak1(r) => SS::Box1(cr(|| Box::from_raw(r as *mut Wrap<T>))),
                    SS::LeakSlice(r, c) => SS::Slice(cr(|| Box::from_raw(r as *mut [T])), c),
                    o => {
                        slots[s] = o;
                        return skip();
                    }
                }
            };
            out("ok")
        }
        "leak" => {
            slots[s] = match take!(slots, s) {
                SS::Box0(b) => SS::Leak0(cr(|| Box::leak(b))),
                SS::Box1(b) => SS::Leak1(cr(|| Box::leak(b))),
                SS::Slice(b, c) => SS::LeakSlice(cr(|| Box::leak(b)), c),
                o => {
                    slots[s] = o;
                    return skip();
                }
            };
            out("ok")
        }
        "to_any" => {
            slots[s] = match take!(slots, s) {
                SS::Box0(b) => SS::Any(cr(|| unsafe { Box::from_raw(Box::into_raw(b) as *mut dyn Any) })),
                SS::Box1(b) => SS::Any(cr(|| unsafe { Box::from_raw(Box::into_raw(b) as *mut dyn Any) })),
                o => {
                    slots[s] = o;
                    return skip();
                }
            };
            out("ok")
        }
        "downcast" => match take!(slots, s) {
            SS::Any(b) => {
                let (slot, ok) = match op.u("t") {
                    0 => match cr(|| b.downcast::<T>()) {
                        Ok(b) => (SS::Box0(b), true),
                        Err(b) => (SS::Any(b), false),
                    },
                    1 => match cr(|| b.downcast::<Wrap<T>>()) {
                        Ok(b) => (SS::Box1(b), true),
                        Err(b) => (SS::Any(b), false),
                    },
                    _ => match cr(|| b.downcast::<u32>()) {
                        Ok(b) => {
                            std::mem::forget(b);
                            (SS::Empty, true)
                        }
                        Err(b) => (SS::Any(b), false),
                    },
                };
                slots[s] = slot;
                out(if ok { "Ok" } else { "Err" })
            }
            o => {
                slots[s] = o;
                skip()
            }
        },
        "into_pin" => match take!(slots, s) {
            SS::Box0(b) => {
                slots[s] = SS::Pin(cr(|| Pin::from(b)));
                out("ok")
            }
            o => {
                slots[s] = o;
                skip()
            }
        },
        "unpin" => match take!(slots, s) {
            SS::Pin(p) => {
                slots[s] = SS::Box0(cr(|| Pin::into_inner(p)));
                out("ok")
            }
            o => {
                slots[s] = o;
                skip()
            }
        },
        "arr_to_slice" => {
            slots[s] = match take!(slots, s) {
                SS::Arr0(b, c) => SS::Slice(cr(|| b as Box<[T]>), c),
                SS::Arr1(b, c) => SS::Slice(cr(|| b as Box<[T]>), c),
                SS::Arr2(b, c) => SS::Slice(cr(|| b as Box<[T]>), c),
                SS::Arr3(b, c) => SS::Slice(cr(|| b as Box<[T]>), c),
                SS::Arr4(b, c) => SS::Slice(cr(|| b as Box<[T]>), c),
                o => {
                    slots[s] = o;
                    return skip();
                }
            };
            out("ok")
        }
        "slice_to_arr" => {
            let n = op.u("n");
            match take!(slots, s) {
                SS::Slice(b, c) if n <= 4 => {
                    macro_rules! conv {
                        ($N:literal, $V:ident) => {
                            match cr(|| Box::<[T; $N]>::try_from(b)) {
                                Ok(a) => (SS::$V(a, c), true),
                                Err(b) => (SS::Slice(b, c), false),
                            }
                        };
                    }
                    let (slot, ok) = match n {
                        0 => conv!(0, Arr0),
                        1 => conv!(1, Arr1),
                        2 => conv!(2, Arr2),
                        3 => conv!(3, Arr3),
                        _ => conv!(4, Arr4),
                    };
                    slots[s] = slot;
                    out(if ok { "Ok" } else { "Err" })
                }
                o => {
                    slots[s] = o;
                    skip()
                }
            }
        }
        "into_boxed_slice" | "from_vec" => match take!(slots, s) {
            SS::Vec(v) => {
                let cap = v.capacity();
                slots[s] = if op.name == "from_vec" { SS::Slice(cr(|| Box::<[T]>::from(v)), Some(cap)) } else { SS::Slice(cr(|| v.into_boxed_slice()), Some(cap)) };
                out("ok")
            }
            o => {
                slots[s] = o;
                skip()
            }
        },
        "slice_to_vec" => match take!(slots, s) {
            SS::Slice(b, _) => {
                slots[s] = SS::Vec(cr(|| b.into_vec()));
                out("ok")
            }
            o => {
                slots[s] = o;
                skip()
            }
        },
        // capacity is not something std promises to match: push exactly when the bumpalo side did (`do=1`)
        "vec_push" => match &mut slots[s] {
            SS::Vec(v) if op.u("do") == 1 => {
                cr(|| v.push(T::mk(id0, x)));
                out("ok")
            }
            _ => skip(),
        },
        // ------------------------------------------------------------------ access through the box
        "read" => match &slots[s] {
            SS::Empty => skip(),
            SS::Str(b) => out(format!("ok {}", hex_of(&**b))),
            o => out(format!("ok [{}]", o.cells())),
        },
        "views" => match &mut slots[s] {
            SS::Box0(b) => {
                let a = show_cell(AsRef::<T>::as_ref(b));
                let bo = show_cell(Borrow::<T>::borrow(b));
                let am = show_cell(AsMut::<T>::as_mut(b));
                let bm = show_cell(BorrowMut::<T>::borrow_mut(b));
                out(format!("ok a=[{}] b=[{}] am=[{}] bm=[{}]", a, bo, am, bm))
            }
            SS::Slice(b, _) => {
                let a = show_cells(AsRef::<[T]>::as_ref(b));
                let bo = show_cells(Borrow::<[T]>::borrow(b));
                let am = show_cells(AsMut::<[T]>::as_mut(b));
                let bm = show_cells(BorrowMut::<[T]>::borrow_mut(b));
                out(format!("ok a=[{}] b=[{}] am=[{}] bm=[{}]", a, bo, am, bm))
            }
            _ => skip(),
        },
        "write" => {
            let i = op.u("i");
            let done = match &mut slots[s] {
                SS::Box0(b) if i == 0 => {
                    b.set_val(x);
                    true
                }
                SS::Box1(b) if i == 0 => {
                    b.0.set_val(x);
                    true
                }
                SS::Pin(p) if i == 0 => {
                    p.as_mut().get_mut().set_val(x);
                    true
                }
                SS::Arr1(b, _) if i < 1 => {
                    b[i].set_val(x);
                    true
                }
                SS::Arr2(b, _) if i < 2 => {
                    b[i].set_val(x);
                    true
                }
                SS::Arr3(b, _) if i < 3 => {
                    b[i].set_val(x);
                    true
                }
                SS::Arr4(b, _) if i < 4 => {
                    b[i].set_val(x);
                    true
                }
                SS::Slice(b, _) if i < b.len() => {
                    b[i].set_val(x);
                    true
                }
                SS::Any(b) if i == 0 => {
                    if let Some(e) = (**b).downcast_mut::<T>() {
                        e.set_val(x);
                    } else if let Some(w) = (**b).downcast_mut::<Wrap<T>>() {
                        w.0.set_val(x);
                    }
                    true
                }
                SS::Vec(v) if i < v.len() => {
                    v[i].set_val(x);
                    true
                }
                SS::Leak0(r) if i == 0 => {
                    r.set_val(x);
                    true
                }
                SS::Leak1(r) if i == 0 => {
                    r.0.set_val(x);
                    true
                }
                SS::LeakSlice(r, _) if i < r.len() => {
                    r[i].set_val(x);
                    true
                }
                _ => false,
            };
            if done {
                out("ok")
            } else {
                skip()
            }
        }
        "call" => match &slots[s] {
            SS::Fun(b, _, _) => out(format!("ok {}", (**b)(x))),
            _ => skip(),
        },
        // ------------------------------------------------------------------ delegating impls
        "cmp" => {
            let (a, b) = (op.u("a"), op.u("b"));
            if a >= ns || b >= ns {
                return skip();
            }
            macro_rules! via {
                ($p:expr, $q:expr) => {
                    ($p == $q, $p != $q, $p < $q, $p <= $q, $p > $q, $p >= $q, ord_ch(Ord::cmp($p, $q)), PartialOrd::partial_cmp($p, $q).map(ord_ch))
                };
            }
            match (&slots[a], &slots[b]) {
                (SS::Box0(p), SS::Box0(q)) => out(cmp_text(&**p, &**q, via!(p, q))),
                (SS::Slice(p, _), SS::Slice(q, _)) => out(cmp_text(&**p, &**q, via!(p, q))),
                (SS::Str(p), SS::Str(q)) => out(cmp_text(&**p, &**q, via!(p, q))),
                _ => skip(),
            }
        }
        "fmt" => match &slots[s] {
            SS::Box0(b) => out(format!("ok dbg={:?} disp={}", b, b)),
            SS::Pin(b) => out(format!("ok dbg={:?} disp={}", b, b)),
            SS::Str(b) => out(format!("ok dbg={:?} disp={}", b, b)),
            SS::Slice(b, _) => out(format!("ok dbg={:?} disp=-", b)),
            SS::Arr0(b, _) => out(format!("ok dbg={:?} disp=-", b)),
            SS::Arr1(b, _) => out(format!("ok dbg={:?} disp=-", b)),
            SS::Arr2(b, _) => out(format!("ok dbg={:?} disp=-", b)),
            SS::Arr3(b, _) => out(format!("ok dbg={:?} disp=-", b)),
            SS::Arr4(b, _) => out(format!("ok dbg={:?} disp=-", b)),
            _ => skip(),
        },
        "hash" => {
            let (hb, hp) = match &slots[s] {
                SS::Box0(b) => (hash_of(b), hash_of(&**b)),
                SS::Slice(b, _) => (hash_of(b), hash_of(&**b)),
                SS::Str(b) => (hash_of(b), hash_of(&**b)),
                _ => return skip(),
            };
            Out { res: (if hb == hp { "ok same" } else { "ok differ" }).to_string(), aux: format!("{:x}", hb), moved: 0 }
        }
        "ptrfmt" => {
            let (pb, pp) = match &slots[s] {
                SS::Box0(b) => (format!("{:p}", *b), format!("{:p}", &**b as *const T)),
                SS::Slice(b, _) => (format!("{:p}", *b), format!("{:p}", &**b as *const [T])),
                SS::Str(b) => (format!("{:p}", *b), format!("{:p}", &**b as *const str)),
                _ => return skip(),
            };
            out(if pb == pp { "ok same" } else { "ok differ" })
        }
        "iter_probe" => {
            let (lo, hi, n) = (op.x("lo"), op.x("hi"), op.u("n"));
            let mk = || cr(|| Box::new(lo..hi));
            let mut it = mk();
            let len = ExactSizeIterator::len(&it);
            let hint = it.size_hint();
            let next = it.next();
            let back = it.next_back();
            let nth = it.nth(n);
            let nthb = it.nth_back(n);
            let len2 = ExactSizeIterator::len(&it);
            let last = mk().last();
            let sum: u32 = mk().sum();
            out(format!("ok len={} hint={},{} next={} back={} nth={} nthb={} len2={} last={} sum={}", len, hint.0, hint.1.map(|v| v.to_string()).unwrap_or("-".into()),
                opt_u(next), opt_u(back), opt_u(nth), opt_u(nthb), len2, opt_u(last), sum))
        }
        "poll_probe" => {
            let mut f = cr(|| Box::new(std::future::ready(x)));
            let mut cx = std::task::Context::from_waker(std::task::Waker::noop());
            match Pin::new(&mut f).poll(&mut cx) {
                std::task::Poll::Ready(v) => out(format!("ok ready {}", v)),
                std::task::Poll::Pending => out("ok pending"),
            }
        }
        "hasher_probe" => {
            let mut h = cr(|| Box::new(DefaultHasher::new()));
            let mut g = DefaultHasher::new();
            h.write_u32(x);
            g.write_u32(x);
            h.write(&[1, 2, 3]);
            g.write(&[1, 2, 3]);
            h.write_u8(7);
            g.write_u8(7);
            h.write_usize(x as usize);
            g.write_usize(x as usize);
            h.write_i64(-5);
            g.write_i64(-5);
            let (a, b) = (h.finish(), g.finish());
            Out { res: (if a == b { "ok same" } else { "ok differ" }).to_string(), aux: format!("{:x}", a), moved: 0 }
        }
        _ => skip(),
    }
}

