//! The program's variable table and every operation on the `bumpalo::boxed::Box` side.
//! Crate calls are wrapped in `cr(..)` (= allocator recording on), nothing else is.
use crate::elems::*;
use crate::galloc::with_rec as cr;
use crate::plan::{Op, K};
use bumpalo::boxed::Box as BBox;
use bumpalo::collections::Vec as BVec;
use bumpalo::Bump;
use std::any::Any;
use std::borrow::{Borrow, BorrowMut};
use std::collections::hash_map::DefaultHasher;
use std::convert::TryFrom;
use std::future::Future;
use std::hash::{Hash, Hasher};
use std::pin::Pin;

pub type DynFn<'a> = dyn Fn(u32) -> u32 + 'a;

pub enum BS<'a, T: Cellish> {
    Empty,
    Box0(BBox<'a, T>),
    Box1(BBox<'a, Wrap<T>>),
    Pin(Pin<BBox<'a, T>>),
    Arr0(BBox<'a, [T; 0]>, Option<usize>),
    Arr1(BBox<'a, [T; 1]>, Option<usize>),
    Arr2(BBox<'a, [T; 2]>, Option<usize>),
    Arr3(BBox<'a, [T; 3]>, Option<usize>),
    Arr4(BBox<'a, [T; 4]>, Option<usize>),
    /// boxed slice + (ghost) capacity of the block it sits in, when known
    Slice(BBox<'a, [T]>, Option<usize>),
    Any(BBox<'a, dyn Any>),
    /// boxed closure that captured an element (id and value noted on the side)
    Fun(BBox<'a, DynFn<'a>>, u64, u32),
    Vec(BVec<'a, T>),
    Str(BBox<'a, str>),
    Raw0(*mut T),
    Raw1(*mut Wrap<T>),
    RawSlice(*mut [T], Option<usize>),
    Leak0(&'a mut T),
    Leak1(&'a mut Wrap<T>),
    LeakSlice(&'a mut [T], Option<usize>),
}

pub fn hex_of(s: &str) -> String {
    if s.is_empty() {
        "-".to_string()
    } else {
        s.bytes().map(|b| format!("{:02x}", b)).collect()
    }
}
pub fn unhex(t: &str) -> String {
    if t == "-" {
        return String::new();
    }
    let b: Vec<u8> = (0..t.len() / 2).filter_map(|i| u8::from_str_radix(&t[2 * i..2 * i + 2], 16).ok()).collect();
    String::from_utf8_lossy(&b).into_owned()
}

impl<'a, T: Cellish> BS<'a, T> {
    /// the elements reachable through this slot, read from memory through the real pointer
    pub fn cells(&self) -> String {
        unsafe {
            match self {
                BS::Empty | BS::Str(_) => String::new(),
                BS::Box0(b) => show_cell(&**b),
                BS::Box1(b) => show_cell(&(**b).0),
                BS::Pin(p) => show_cell(&**p),
                BS::Arr0(b, _) => show_cells(&b[..]),
                BS::Arr1(b, _) => show_cells(&b[..]),
                BS::Arr2(b, _) => show_cells(&b[..]),
                BS::Arr3(b, _) => show_cells(&b[..]),
                BS::Arr4(b, _) => show_cells(&b[..]),
                BS::Slice(b, _) => show_cells(&b[..]),
                BS::Any(b) => {
                    if let Some(e) = (**b).downcast_ref::<T>() {
                        show_cell(e)
                    } else if let Some(w) = (**b).downcast_ref::<Wrap<T>>() {
                        show_cell(&w.0)
                    } else {
                        "?".to_string()
                    }
                }
                BS::Fun(_, id, val) => {
                    if T::Z {
                        "z".to_string()
                    } else {
                        format!("{}:{}", id, val)
                    }
                }
                BS::Vec(v) => show_cells(&v[..]),
                BS::Raw0(p) => show_cell(&**p),
                BS::Raw1(p) => show_cell(&(**p).0),
                BS::RawSlice(p, _) => show_cells(&(**p)[..]),
                BS::Leak0(r) => show_cell(&**r),
                BS::Leak1(r) => show_cell(&r.0),
                BS::LeakSlice(r, _) => show_cells(&r[..]),
            }
        }
    }
    fn any_tag(b: &BBox<'a, dyn Any>) -> u8 {
        if (**b).is::<T>() {
            0
        } else if (**b).is::<Wrap<T>>() {
            1
        } else {
            9
        }
    }
    pub fn show(&self) -> String {
        let c = self.cells();
        match self {
            BS::Empty => "-".to_string(),
            BS::Box0(_) => format!("B0({})", c),
            BS::Box1(_) => format!("B1({})", c),
            BS::Pin(_) => format!("P({})", c),
            BS::Arr0(..) | BS::Arr1(..) | BS::Arr2(..) | BS::Arr3(..) | BS::Arr4(..) => format!("A[{}]", c),
            BS::Slice(..) => format!("S[{}]", c),
            BS::Any(b) => format!("Y{}({})", Self::any_tag(b), c),
            BS::Fun(..) => format!("F({})", c),
            BS::Vec(_) => format!("V[{}]", c),
            BS::Str(b) => format!("T{}", hex_of(&**b)),
            BS::Raw0(_) => format!("R0({})", c),
            BS::Raw1(_) => format!("R1({})", c),
            BS::RawSlice(..) => format!("RS[{}]", c),
            BS::Leak0(_) => format!("L0({})", c),
            BS::Leak1(_) => format!("L1({})", c),
            BS::LeakSlice(..) => format!("LS[{}]", c),
        }
    }
    pub fn kind(&self) -> K {
        match self {
            BS::Empty => K::Empty,
            BS::Box0(_) => K::Box(0),
            BS::Box1(_) => K::Box(1),
            BS::Pin(_) => K::Pin,
            BS::Arr0(..) => K::Arr(0),
            BS::Arr1(..) => K::Arr(1),
            BS::Arr2(..) => K::Arr(2),
            BS::Arr3(..) => K::Arr(3),
            BS::Arr4(..) => K::Arr(4),
            BS::Slice(b, c) => K::Slice(b.len(), c.is_some()),
            BS::Any(b) => K::Any(Self::any_tag(b)),
            BS::Fun(..) => K::Fun,
            BS::Vec(v) => K::Vec(v.len(), v.len() < v.capacity()),
            BS::Str(_) => K::Str,
            BS::Raw0(_) => K::Raw(0),
            BS::Raw1(_) => K::Raw(1),
            BS::RawSlice(..) => K::RawSlice,
            BS::Leak0(_) => K::Leak(0),
            BS::Leak1(_) => K::Leak(1),
            BS::LeakSlice(..) => K::LeakSlice,
        }
    }
    /// does dropping the slot's value run destructors (i.e. is it an owner)?
    pub fn is_owner(&self) -> bool {
        !matches!(self, BS::Empty | BS::Raw0(_) | BS::Raw1(_) | BS::RawSlice(..) | BS::Leak0(_) | BS::Leak1(_) | BS::LeakSlice(..))
    }
}

pub struct Out {
    pub res: String,
    /// compared between the two sides only (not with the model)
    pub aux: String,
    /// values moved out to the caller by this operation (dropped by the caller afterwards)
    pub moved: usize,
}
fn out(res: impl Into<String>) -> Out {
    Out { res: res.into(), aux: String::new(), moved: 0 }
}
fn skip() -> Out {
    out("skip")
}

fn mk_arr<T: Cellish, const N: usize>(id0: u64, xs: &[u32]) -> [T; N] {
    std::array::from_fn(|k| T::mk(id0 + k as u64, xs[k]))
}
pub fn ord_ch(o: std::cmp::Ordering) -> char {
    match o {
        std::cmp::Ordering::Less => 'L',
        std::cmp::Ordering::Equal => 'E',
        std::cmp::Ordering::Greater => 'G',
    }
}
pub fn cmp_text<X: PartialOrd + Ord + PartialEq + ?Sized>(x: &X, y: &X, via_box: (bool, bool, bool, bool, bool, bool, char, Option<char>)) -> String {
    let (eq, ne, lt, le, gt, ge, c, pc) = via_box;
    let _ = (x, y);
    format!("ok eq={} ne={} lt={} le={} gt={} ge={} cmp={} pcmp={}", eq as u8, ne as u8, lt as u8, le as u8, gt as u8, ge as u8, c, pc.unwrap_or('N'))
}
pub fn hash_of<X: Hash + ?Sized>(x: &X) -> u64 {
    let mut h = DefaultHasher::new();
    x.hash(&mut h);
    h.finish()
}
pub fn opt_u(o: Option<u32>) -> String {
    match o {
        Some(v) => v.to_string(),
        None => "-".to_string(),
    }
}

macro_rules! take {
    ($slots:expr, $s:expr) => {
        std::mem::replace(&mut $slots[$s], BS::Empty)
    };
}

/// Execute one operation on the bumpalo side.  `pending` receives values moved out to the caller.
pub fn apply_b<'a, T: Cellish>(op: &Op, slots: &mut Vec<BS<'a, T>>, bump: &'a Bump, id0: u64, pending: &mut Vec<T>) -> Out {
    let ns = slots.len();
    let s = op.u("s");
    if s >= ns {
        return skip();
    }
    let x = op.x("x");
    let empty = matches!(slots[s], BS::Empty);
    match op.name.as_str() {
        // ------------------------------------------------------------------ constructors
        "new" => {
            if !empty {
                return skip();
            }
            slots[s] = if op.u("t") == 1 { BS::Box1(cr(|| BBox::new_in(Wrap(T::mk(id0, x)), bump))) } else { BS::Box0(cr(|| BBox::new_in(T::mk(id0, x), bump))) };
            out("ok")
        }
        "pin" => {
            if !empty {
                return skip();
            }
            slots[s] = BS::Pin(cr(|| BBox::pin_in(T::mk(id0, x), bump)));
            out("ok")
        }
        "new_arr" => {
            let xs = op.xs("xs");
            if !empty || xs.len() > 4 {
                return skip();
            }
            slots[s] = match xs.len() {
                0 => BS::Arr0(cr(|| BBox::new_in(mk_arr::<T, 0>(id0, &xs), bump)), Some(0)),
                1 => BS::Arr1(cr(|| BBox::new_in(mk_arr::<T, 1>(id0, &xs), bump)), Some(1)),
                2 => BS::Arr2(cr(|| BBox::new_in(mk_arr::<T, 2>(id0, &xs), bump)), Some(2)),
                3 => BS::Arr3(cr(|| BBox::new_in(mk_arr::<T, 3>(id0, &xs), bump)), Some(3)),
                _ => BS::Arr4(cr(|| BBox::new_in(mk_arr::<T, 4>(id0, &xs), bump)), Some(4)),
            };
            out("ok")
        }
        "from_iter" => {
            if !empty {
                return skip();
            }
            let xs = op.xs("xs");
            let it = xs.iter().enumerate().map(|(k, v)| T::mk(id0 + k as u64, *v));
            slots[s] = BS::Slice(cr(|| BBox::from_iter_in(it, bump)), None);
            out("ok")
        }
        "vec" => {
            if !empty {
                return skip();
            }
            let xs = op.xs("xs");
            let cap = op.u("cap").max(xs.len()).min(64);
            let v = cr(|| {
                let mut v = BVec::with_capacity_in(cap, bump);
                for (k, val) in xs.iter().enumerate() {
                    v.push(T::mk(id0 + k as u64, *val));
                }
                v
            });
            slots[s] = BS::Vec(v);
            out("ok")
        }
        "new_any" => {
            if !empty {
                return skip();
            }
            let b: BBox<'a, dyn Any> = if op.u("t") == 1 {
                cr(|| unsafe { BBox::from_raw(BBox::into_raw(BBox::new_in(Wrap(T::mk(id0, x)), bump)) as *mut dyn Any) })
            } else {
                cr(|| unsafe { BBox::from_raw(BBox::into_raw(BBox::new_in(T::mk(id0, x), bump)) as *mut dyn Any) })
            };
            slots[s] = BS::Any(b);
            out("ok")
        }
        "new_fn" => {
            if !empty {
                return skip();
            }
            let e = T::mk(id0, x);
            let f = move |y: u32| y.wrapping_add(e.val());
            let b: BBox<'a, DynFn<'a>> = cr(|| unsafe { BBox::from_raw(BBox::into_raw(BBox::new_in(f, bump)) as *mut DynFn<'a>) });
            slots[s] = BS::Fun(b, id0, if T::Z { 0 } else { x });
            out("ok")
        }
        "new_str" => {
            if !empty {
                return skip();
            }
            let t = unhex(op.get("t").unwrap_or("-"));
            slots[s] = BS::Str(cr(|| unsafe { BBox::from_raw(bump.alloc_str(&t) as *mut str) }));
            out("ok")
        }
        "default_slice" => {
            if !empty {
                return skip();
            }
            slots[s] = BS::Slice(cr(|| BBox::<[T]>::default()), Some(0));
            out("ok")
        }
        "default_str" => {
            if !empty {
                return skip();
            }
            slots[s] = BS::Str(cr(|| BBox::<str>::default()));
            out("ok")
        }
        // ------------------------------------------------------------------ ownership transfers
        "drop" => {
            if !slots[s].is_owner() {
                return skip();
            }
            let old = take!(slots, s);
            cr(|| drop(old));
            out("ok")
        }
        "into_inner" => match take!(slots, s) {
            BS::Box0(b) => {
                let v: T = cr(|| BBox::into_inner(b));
                let r = format!("ok {}", show_cell(&v));
                pending.push(v);
                Out { res: r, aux: String::new(), moved: 1 }
            }
            BS::Box1(b) => {
                let v: Wrap<T> = cr(|| BBox::into_inner(b));
                let r = format!("ok {}", show_cell(&v.0));
                pending.push(v.0);
                Out { res: r, aux: String::new(), moved: 1 }
            }
            o => {
                slots[s] = o;
                skip()
            }
        },
        "into_raw" => {
            slots[s] = match take!(slots, s) {
                BS::Box0(b) => BS::Raw0(cr(|| BBox::into_raw(b))),
                BS::Box1(b) => BS::Raw1(cr(|| BBox::into_raw(b))),
                BS::Slice(b, c) => BS::RawSlice(cr(|| BBox::into_raw(b)), c),
                o => {
                    slots[s] = o;
                    return skip();
                }
            };
            out("ok")
        }
        "from_raw" => {
            slots[s] = unsafe {
                match take!(slots, s) {
                    BS::Raw0(p) => BS::Box0(cr(|| BBox::from_raw(p))),
                    BS::Raw1(p) => BS::Box1(cr(|| BBox::from_raw(p))),
                    BS::RawSlice(p, c) => BS::Slice(cr(|| BBox::from_raw(p)), c),
                    BS::Leak0(r) => BS::Box0(cr(|| BBox::from_raw(r as *mut T))),
                    BS::Leak1(r) => BS::Box1(cr(|| BBox::from_raw(r as *mut Wrap<T>))),
                    BS::LeakSlice(r, c) => BS::Slice(cr(|| BBox::from_raw(r as *mut [T])), c),
                    o => {
                        slots[s] = o;
                        return skip();
                    }
                }
            };
            out("ok")
        }
        "leak" => {
            slots[s] = match take!(slots, s) {
                BS::Box0(b) => BS::Leak0(cr(|| BBox::leak(b))),
                BS::Box1(b) => BS::Leak1(cr(|| BBox::leak(b))),
                BS::Slice(b, c) => BS::LeakSlice(cr(|| BBox::leak(b)), c),
                o => {
                    slots[s] = o;
                    return skip();
                }
            };
            out("ok")
        }
        "to_any" => {
            slots[s] = match take!(slots, s) {
                BS::Box0(b) => BS::Any(cr(|| unsafe { BBox::from_raw(BBox::into_raw(b) as *mut dyn Any) })),
                BS::Box1(b) => BS::Any(cr(|| unsafe { BBox::from_raw(BBox::into_raw(b) as *mut dyn Any) })),
                o => {
                    slots[s] = o;
                    return skip();
                }
            };
            out("ok")
        }
        "downcast" => match take!(slots, s) {
            BS::Any(b) => {
                let (slot, ok) = match op.u("t") {
                    0 => match cr(|| b.downcast::<T>()) {
                        Ok(b) => (BS::Box0(b), true),
                        Err(b) => (BS::Any(b), false),
                    },
                    1 => match cr(|| b.downcast::<Wrap<T>>()) {
                        Ok(b) => (BS::Box1(b), true),
                        Err(b) => (BS::Any(b), false),
                    },
                    _ => match cr(|| b.downcast::<u32>()) {
                        Ok(b) => {
                            std::mem::forget(b);
                            (BS::Empty, true)
                        }
                        Err(b) => (BS::Any(b), false),
                    },
                };
                slots[s] = slot;
                out(if ok { "Ok" } else { "Err" })
            }
            o => {
                slots[s] = o;
                skip()
            }
        },
        "into_pin" => match take!(slots, s) {
            BS::Box0(b) => {
                slots[s] = BS::Pin(cr(|| Pin::from(b)));
                out("ok")
            }
            o => {
                slots[s] = o;
                skip()
            }
        },
        "unpin" => match take!(slots, s) {
            BS::Pin(p) => {
                slots[s] = BS::Box0(cr(|| Pin::into_inner(p)));
                out("ok")
            }
            o => {
                slots[s] = o;
                skip()
            }
        },
        "arr_to_slice" => {
            slots[s] = match take!(slots, s) {
                BS::Arr0(b, c) => BS::Slice(cr(|| BBox::<[T]>::from(b)), c),
                BS::Arr1(b, c) => BS::Slice(cr(|| BBox::<[T]>::from(b)), c),
                BS::Arr2(b, c) => BS::Slice(cr(|| BBox::<[T]>::from(b)), c),
                BS::Arr3(b, c) => BS::Slice(cr(|| BBox::<[T]>::from(b)), c),
                BS::Arr4(b, c) => BS::Slice(cr(|| BBox::<[T]>::from(b)), c),
                o => {
                    slots[s] = o;
                    return skip();
                }
            };
            out("ok")
        }
        "slice_to_arr" => {
            let n = op.u("n");
            match take!(slots, s) {
                BS::Slice(b, c) if n <= 4 => {
                    macro_rules! conv {
                        ($N:literal, $V:ident) => {
                            match cr(|| BBox::<[T; $N]>::try_from(b)) {
                                Ok(a) => (BS::$V(a, c), true),
                                Err(b) => (BS::Slice(b, c), false),
                            }
                        };
                    }
                    let (slot, ok) = match n {
                        0 => conv!(0, Arr0),
                        1 => conv!(1, Arr1),
                        2 => conv!(2, Arr2),
                        3 => conv!(3, Arr3),
                        _ => conv!(4, Arr4),
                    };
                    slots[s] = slot;
                    out(if ok { "Ok" } else { "Err" })
                }
                o => {
                    slots[s] = o;
                    skip()
                }
            }
        }
        "into_boxed_slice" | "from_vec" => match take!(slots, s) {
            BS::Vec(v) => {
                let cap = v.capacity();
                slots[s] = if op.name == "from_vec" { BS::Slice(cr(|| BBox::<[T]>::from(v)), Some(cap)) } else { BS::Slice(cr(|| v.into_boxed_slice()), Some(cap)) };
                out("ok")
            }
            o => {
                slots[s] = o;
                skip()
            }
        },
        "slice_to_vec" => match take!(slots, s) {
            BS::Slice(b, _) => {
                // the crate offers no safe Box<[T]> -> Vec; this is the raw-parts round trip.  The capacity given is the
                // length: whatever block the slice sits in holds at least that (robust against a shrinking into_boxed_slice)
                let len = b.len();
                let cap = len;
                let p = cr(|| BBox::into_raw(b)) as *mut T;
                slots[s] = BS::Vec(cr(|| unsafe { BVec::from_raw_parts_in(p, len, cap, bump) }));
                out("ok")
            }
            o => {
                slots[s] = o;
                skip()
            }
        },
        "vec_push" => match &mut slots[s] {
            BS::Vec(v) if v.len() < v.capacity() => {
                cr(|| v.push(T::mk(id0, x)));
                out("ok")
            }
            _ => skip(),
        },
        // ------------------------------------------------------------------ access through the box
        "read" => match &slots[s] {
            BS::Empty => skip(),
            BS::Str(b) => out(format!("ok {}", hex_of(&**b))),
            o => out(format!("ok [{}]", o.cells())),
        },
        "views" => match &mut slots[s] {
            BS::Box0(b) => {
                let a = show_cell(AsRef::<T>::as_ref(b));
                let bo = show_cell(Borrow::<T>::borrow(b));
                let am = show_cell(AsMut::<T>::as_mut(b));
                let bm = show_cell(BorrowMut::<T>::borrow_mut(b));
                out(format!("ok a=[{}] b=[{}] am=[{}] bm=[{}]", a, bo, am, bm))
            }
            BS::Slice(b, _) => {
                let a = show_cells(AsRef::<[T]>::as_ref(b));
                let bo = show_cells(Borrow::<[T]>::borrow(b));
                let am = show_cells(AsMut::<[T]>::as_mut(b));
                let bm = show_cells(BorrowMut::<[T]>::borrow_mut(b));
                out(format!("ok a=[{}] b=[{}] am=[{}] bm=[{}]", a, bo, am, bm))
            }
            _ => skip(),
        },
        "write" => {
            let i = op.u("i");
            let done = match &mut slots[s] {
                BS::Box0(b) if i == 0 => {
                    b.set_val(x);
                    true
                }
                BS::Box1(b) if i == 0 => {
                    b.0.set_val(x);
                    true
                }
                BS::Pin(p) if i == 0 => {
                    p.as_mut().get_mut().set_val(x);
                    true
                }
                BS::Arr1(b, _) if i < 1 => {
                    b[i].set_val(x);
                    true
                }
                BS::Arr2(b, _) if i < 2 => {
                    b[i].set_val(x);
                    true
                }
                BS::Arr3(b, _) if i < 3 => {
                    b[i].set_val(x);
                    true
                }
                BS::Arr4(b, _) if i < 4 => {
                    b[i].set_val(x);
                    true
                }
                BS::Slice(b, _) if i < b.len() => {
                    b[i].set_val(x);
                    true
                }
                BS::Any(b) if i == 0 => {
                    if let Some(e) = (**b).downcast_mut::<T>() {
                        e.set_val(x);
                    } else if let Some(w) = (**b).downcast_mut::<Wrap<T>>() {
                        w.0.set_val(x);
                    }
                    true
                }
                BS::Vec(v) if i < v.len() => {
                    v[i].set_val(x);
                    true
                }
                BS::Leak0(r) if i == 0 => {
                    r.set_val(x);
                    true
                }
                BS::Leak1(r) if i == 0 => {
                    r.0.set_val(x);
                    true
                }
                BS::LeakSlice(r, _) if i < r.len() => {
                    r[i].set_val(x);
                    true
                }
                _ => false,
            };
            if done {
                out("ok")
            } else {
                skip()
            }
        }
        "call" => match &slots[s] {
            BS::Fun(b, _, _) => out(format!("ok {}", (**b)(x))),
            _ => skip(),
        },
        // ------------------------------------------------------------------ delegating impls
        "cmp" => {
            let (a, b) = (op.u("a"), op.u("b"));
            if a >= ns || b >= ns {
                return skip();
            }
            macro_rules! via {
                ($p:expr, $q:expr) => {
                    ($p == $q, $p != $q, $p < $q, $p <= $q, $p > $q, $p >= $q, ord_ch(Ord::cmp($p, $q)), PartialOrd::partial_cmp($p, $q).map(ord_ch))
                };
            }
            match (&slots[a], &slots[b]) {
                (BS::Box0(p), BS::Box0(q)) => out(cmp_text(&**p, &**q, via!(p, q))),
                (BS::Slice(p, _), BS::Slice(q, _)) => out(cmp_text(&**p, &**q, via!(p, q))),
                (BS::Str(p), BS::Str(q)) => out(cmp_text(&**p, &**q, via!(p, q))),
                _ => skip(),
            }
        }
        "fmt" => match &slots[s] {
            BS::Box0(b) => out(format!("ok dbg={:?} disp={}", b, b)),
            BS::Pin(b) => out(format!("ok dbg={:?} disp={}", b, b)),
            BS::Str(b) => out(format!("ok dbg={:?} disp={}", b, b)),
            BS::Slice(b, _) => out(format!("ok dbg={:?} disp=-", b)),
            BS::Arr0(b, _) => out(format!("ok dbg={:?} disp=-", b)),
            BS::Arr1(b, _) => out(format!("ok dbg={:?} disp=-", b)),
            BS::Arr2(b, _) => out(format!("ok dbg={:?} disp=-", b)),
            BS::Arr3(b, _) => out(format!("ok dbg={:?} disp=-", b)),
            BS::Arr4(b, _) => out(format!("ok dbg={:?} disp=-", b)),
            _ => skip(),
        },
        "hash" => {
            let (hb, hp) = match &slots[s] {
                BS::Box0(b) => (hash_of(b), hash_of(&**b)),
                BS::Slice(b, _) => (hash_of(b), hash_of(&**b)),
                BS::Str(b) => (hash_of(b), hash_of(&**b)),
                _ => return skip(),
            };
            Out { res: (if hb == hp { "ok same" } else { "ok differ" }).to_string(), aux: format!("{:x}", hb), moved: 0 }
        }
        "ptrfmt" => {
            let (pb, pp) = match &slots[s] {
                BS::Box0(b) => (format!("{:p}", *b), format!("{:p}", &**b as *const T)),
                BS::Slice(b, _) => (format!("{:p}", *b), format!("{:p}", &**b as *const [T])),
                BS::Str(b) => (format!("{:p}", *b), format!("{:p}", &**b as *const str)),
                _ => return skip(),
            };
            out(if pb == pp { "ok same" } else { "ok differ" })
        }
        "iter_probe" => {
            let (lo, hi, n) = (op.x("lo"), op.x("hi"), op.u("n"));
            let mk = || cr(|| BBox::new_in(lo..hi, bump));
            let mut it = mk();
            let len = ExactSizeIterator::len(&it);
            let hint = it.size_hint();
            let next = it.next();
            let back = it.next_back();
            let nth = it.nth(n);
            let nthb = it.nth_back(n);
            let len2 = ExactSizeIterator::len(&it);
            let last = mk().last();
            let sum: u32 = mk().sum();
            out(format!("ok len={} hint={},{} next={} back={} nth={} nthb={} len2={} last={} sum={}", len, hint.0, hint.1.map(|v| v.to_string()).unwrap_or("-".into()),
                opt_u(next), opt_u(back), opt_u(nth), opt_u(nthb), len2, opt_u(last), sum))
        }
        "poll_probe" => {
            let mut f = cr(|| BBox::new_in(std::future::ready(x), bump));
            let mut cx = std::task::Context::from_waker(std::task::Waker::noop());
            match Pin::new(&mut f).poll(&mut cx) {
                std::task::Poll::Ready(v) => out(format!("ok ready {}", v)),
                std::task::Poll::Pending => out("ok pending"),
            }
        }
        "hasher_probe" => {
            let mut h = cr(|| BBox::new_in(DefaultHasher::new(), bump));
            let mut g = DefaultHasher::new();
            h.write_u32(x);
            g.write_u32(x);
            h.write(&[1, 2, 3]);
            g.write(&[1, 2, 3]);
            h.write_u8(7);
            g.write_u8(7);
            h.write_usize(x as usize);
            g.write_usize(x as usize);
            h.write_i64(-5);
            g.write_i64(-5);
            let (a, b) = (h.finish(), g.finish());
            Out { res: (if a == b { "ok same" } else { "ok differ" }).to_string(), aux: format!("{:x}", a), moved: 0 }
        }
        _ => skip(),
    }
}

/// arena accounting visible without `&mut`: (allocated_bytes, number of chunks, bytes in use)
pub fn acct(bump: &Bump) -> (usize, usize, usize) {
    let mut chunks = 0;
    let mut used = 0;
    unsafe {
        for (_p, len) in bump.iter_allocated_chunks_raw() {
            chunks += 1;
            used += len;
        }
    }
    (bump.allocated_bytes(), chunks, used)
}
