//! PRNG, small helpers.
#[derive(Clone)]
pub struct Rng(pub u64);
impl Rng {
    pub fn new(seed: u64) -> Self {
        Rng(seed ^ 0x9E37_79B9_7F4A_7C15)
    }
    pub fn next(&mut self) -> u64 {
        self.0 = self.0.wrapping_add(0x9E37_79B9_7F4A_7C15);
        let mut z = self.0;
        z = (z ^ (z >> 30)).wrapping_mul(0xBF58_476D_1CE4_E5B9);
        z = (z ^ (z >> 27)).wrapping_mul(0x94D0_49BB_1331_11EB);
        z ^ (z >> 31)
    }
    pub fn below(&mut self, n: u64) -> u64 {
        if n == 0 {
            0
        } else {
            self.next() % n
        }
    }
    pub fn range(&mut self, lo: u64, hi: u64) -> u64 {
        lo + self.below(hi - lo + 1)
    }
    pub fn chance(&mut self, num: u64, den: u64) -> bool {
        self.below(den) < num
    }
    pub fn pick<T: Copy>(&mut self, xs: &[T]) -> T {
        xs[self.below(xs.len() as u64) as usize]
    }
    /// weighted index
    pub fn weighted(&mut self, ws: &[u32]) -> usize {
        let tot: u64 = ws.iter().map(|w| *w as u64).sum();
        let mut r = self.below(tot.max(1));
        for (i, w) in ws.iter().enumerate() {
            if r < *w as u64 {
                return i;
            }
            r -= *w as u64;
        }
        ws.len() - 1
    }
    pub fn fork(&mut self) -> Rng {
        Rng(self.next())
    }
}

pub fn hex(a: usize) -> String {
    format!("{:#x}", a)
}

/// key=value lookup in a token list
pub fn kv<'a>(toks: &'a [&'a str], key: &str) -> Option<&'a str> {
    for t in toks {
        if let Some(rest) = t.strip_prefix(key) {
            if let Some(v) = rest.strip_prefix('=') {
                return Some(v);
            }
        }
    }
    None
}
pub fn kv_usize(toks: &[&str], key: &str) -> Option<usize> {
    kv(toks, key).and_then(parse_usize)
}
pub fn parse_usize(s: &str) -> Option<usize> {
    if let Some(h) = s.strip_prefix("0x") {
        usize::from_str_radix(h, 16).ok()
    } else {
        s.parse().ok()
    }
}
