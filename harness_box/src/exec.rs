//! Runs one plan on `bumpalo::boxed::Box` and on `std::boxed::Box` side by side, writes the
//! trace read by the Lean driver `bvdrv_box`, evaluates the model-independent oracles.
use crate::bside::*;
use crate::elems::*;
use crate::galloc;
use crate::plan::*;
use crate::sside::*;
use crate::util::*;
use bumpalo::Bump;
use std::fmt::Write;
use std::panic::{catch_unwind, AssertUnwindSafe};

pub struct RunOut {
    pub trace: String,
    pub oracle_fails: Vec<String>,
    pub n_ops: usize,
    pub res_kinds: Vec<(String, usize)>,
}

fn alloc_class(name: &str, before: K) -> bool {
    matches!(name, "new" | "pin" | "new_arr" | "from_iter" | "vec" | "new_any" | "new_fn" | "new_str" | "into_boxed_slice" | "from_vec" | "iter_probe" | "poll_probe" | "hasher_probe")
        || (name == "drop" && matches!(before, K::Vec(..)))
}
/// operations that hand the same value(s) on under another type: nothing may be dropped,
/// duplicated, reordered or changed
fn is_transfer(name: &str) -> bool {
    matches!(name, "into_raw" | "from_raw" | "leak" | "to_any" | "downcast" | "into_pin" | "unpin" | "arr_to_slice" | "slice_to_arr"
        | "into_boxed_slice" | "from_vec" | "slice_to_vec")
}
/// ids in a `cells()` text (`id:val,id:val`)
fn ids_of(cells: &str) -> Vec<u64> {
    cells.split(',').filter_map(|t| t.split(':').next().and_then(|i| i.parse().ok())).collect()
}
fn n_cells(cells: &str) -> usize {
    if cells.is_empty() {
        0
    } else {
        cells.split(',').count()
    }
}

pub fn run_plan<T0: Cellish, T1: Cellish>(plan: &mut Plan, gen: Option<(Profile, usize)>) -> RunOut {
    let z = T0::Z;
    reset_plan();
    let mut trace = String::with_capacity(1 << 14);
    let mut fails: Vec<String> = vec![];
    let mut kinds_hist: std::collections::BTreeMap<String, usize> = Default::default();
    let header = plan.header();
    crate::begin_plan(&header);
    writeln!(trace, "{}", header).unwrap();
    let bump = Bump::new();
    let mut bs: Vec<BS<'_, T0>> = (0..plan.ns).map(|_| BS::Empty).collect();
    let mut ss: Vec<SS<T1>> = (0..plan.ns).map(|_| SS::Empty).collect();
    let mut next_id: u64 = 1;
    let mut rng = Rng::new(plan.seed);
    let total = match gen {
        Some((_, n)) => n,
        None => plan.ops.len(),
    };
    let mut n_ops = 0;
    let pidx = plan.idx;
    for i in 0..total {
        let op = match gen {
            Some((prof, _)) => {
                let kinds: Vec<K> = bs.iter().map(|s| s.kind()).collect();
                let op = gen_op(prof, &kinds, &mut rng);
                plan.ops.push(op.clone());
                op
            }
            None => plan.ops[i].clone(),
        };
        let text = op.text();
        crate::set_current(pidx, i, &text);
        let s = op.u("s").min(plan.ns - 1);
        let kind_before = bs[s].kind();
        let cells_before = bs[s].cells();
        let owner_before = bs[s].is_owner();
        let dpanic = op.opt("dpanic");
        let mut fail = |prop: &str, name: &str, detail: String| {
            fails.push(format!("ORACLE {} {} plan={} op={} {} {}", prop, name, pidx, i, text.replace(' ', "_"), detail));
        };
        // ---------------- bumpalo side
        let before = acct(&bump);
        let mut pend0: Vec<T0> = Vec::with_capacity(2);
        galloc::reset_log();
        begin_op(0, dpanic);
        let rb = catch_unwind(AssertUnwindSafe(|| apply_b(&op, &mut bs, &bump, next_id, &mut pend0)));
        galloc::recording_off();
        let (drops_b, _fired_b) = end_op(0);
        let evt = galloc::n_events();
        let after = acct(&bump);
        let (res_b, aux_b) = match rb {
            Ok(o) => (o.res, o.aux),
            Err(_) => ("panic".to_string(), String::new()),
        };
        let moved_ids: Vec<u64> = pend0.iter().map(|v| v.id()).collect();
        // the caller now owns (and here immediately drops) what was moved out
        begin_op(0, None);
        drop(pend0);
        let (cdrops_b, _) = end_op(0);
        // ---------------- std side (reference)
        let mut pend1: Vec<T1> = Vec::with_capacity(2);
        begin_op(1, dpanic);
        let op_s = if op.name == "vec_push" { op.clone().with("do", if res_b == "ok" { 1 } else { 0 }) } else { op.clone() };
        let rs = catch_unwind(AssertUnwindSafe(|| apply_s(&op_s, &mut ss, next_id, &mut pend1)));
        let (drops_s, _fired_s) = end_op(1);
        let (res_s, aux_s) = match rs {
            Ok(o) => (o.res, o.aux),
            Err(_) => ("panic".to_string(), String::new()),
        };
        begin_op(1, None);
        drop(pend1);
        let (cdrops_s, _) = end_op(1);

        // ---------------- ids consumed
        if res_b != "skip" {
            next_id += match op.name.as_str() {
                "new" | "pin" | "new_any" | "new_fn" | "vec_push" => 1,
                "new_arr" | "from_iter" | "vec" => op.xs("xs").len() as u64,
                _ => 0,
            };
        }
        let listing_b = bs.iter().map(|x| x.show()).collect::<Vec<_>>().join(";");
        let listing_s = ss.iter().map(|x| x.show()).collect::<Vec<_>>().join(";");
        let dp = match dpanic {
            Some(k) => format!(" dpanic={}", k),
            None => String::new(),
        };
        // ---------------- oracles: against std
        if res_b != res_s {
            fail("C17", "std-result-differs", format!("bumpalo={} std={}{}", res_b.replace(' ', "_"), res_s.replace(' ', "_"), dp));
        }
        if aux_b != aux_s {
            fail("C17", "std-value-differs", format!("bumpalo={} std={}{}", aux_b, aux_s, dp));
        }
        if drops_b != drops_s || cdrops_b != cdrops_s {
            fail("C17", "std-drops-differ", format!("bumpalo={}+{} std={}+{}{}", show_ids(z, &drops_b), show_ids(z, &cdrops_b), show_ids(z, &drops_s), show_ids(z, &cdrops_s), dp));
        }
        if listing_b != listing_s {
            fail("C17", "std-state-differs", format!("bumpalo={} std={}{}", listing_b, listing_s, dp));
        }
        // ---------------- oracles: drop ledger
        if z {
            if z_dropped(0) > next_id - 1 {
                fail("C17", "double-drop", format!("zero-sized elements created={} destructor calls={}{}", next_id - 1, z_dropped(0), dp));
            }
        } else {
            for id in drops_b.iter().chain(cdrops_b.iter()) {
                if drop_count(0, *id) > 1 {
                    fail("C17", "double-drop", format!("id={} destructor ran {} times{}", id, drop_count(0, *id), dp));
                    break;
                }
            }
            'outer: for sl in bs.iter() {
                for id in ids_of(&sl.cells()) {
                    if drop_count(0, id) > 0 {
                        fail("C17", "dropped-while-reachable", format!("id={} reachable through {} after its destructor ran{}", id, sl.show(), dp));
                        break 'outer;
                    }
                }
            }
        }
        if overflowed() {
            fail("C17", "garbage-element-dropped", format!("a destructor ran on an id that was never created{}", dp));
        }
        if op.name == "drop" && res_b != "skip" && owner_before {
            let want = if z { vec![0; n_cells(&cells_before)] } else { ids_of(&cells_before) };
            if drops_b != want {
                fail("C17", "drop-mismatch", format!("dropping {:?} holding [{}] ran destructors {}{}", kind_before, cells_before, show_ids(z, &drops_b), dp));
            }
        } else if !drops_b.is_empty() {
            fail("C17", "unexpected-drop", format!("destructors {} ran during an operation that must not drop{}", show_ids(z, &drops_b), dp));
        }
        if op.name == "into_inner" && res_b != "skip" {
            if res_b != format!("ok {}", cells_before) || cdrops_b.len() != 1 {
                fail("C17", "moved-value-wrong", format!("held [{}] got {} caller-drops={}{}", cells_before, res_b.replace(' ', "_"), show_ids(z, &cdrops_b), dp));
            }
        }
        if is_transfer(&op.name) && res_b != "skip" {
            let now = bs[s].cells();
            let gone_ok = op.name == "downcast" && op.u("t") >= 2 && res_b == "Ok"; // reported below
            if now != cells_before && !gone_ok {
                fail("C17", "transfer-changed-value", format!("before=[{}] after=[{}]{}", cells_before, now, dp));
            }
        }
        if op.name == "downcast" && res_b != "skip" {
            if let K::Any(tag) = kind_before {
                let want = if tag as usize == op.u("t") { "Ok" } else { "Err" };
                if res_b != want {
                    fail("C17", "downcast-wrong", format!("value of type tag {} downcast to tag {} gave {}{}", tag, op.u("t"), res_b, dp));
                }
            }
        }
        // ---------------- oracle: Box never touches arena memory
        let ac = alloc_class(&op.name, kind_before);
        if !ac && (before != after || evt != 0) {
            fail("C17", "box-op-touched-arena", format!("before(ab,chunks,used)={:?} after={:?} allocator-events={}{}", before, after, evt, dp));
        }
        // ---------------- trace line
        let env = if ac && res_b != "skip" { format!(" env={},{},{},{}", after.0, after.1, after.2, evt) } else { String::new() };
        writeln!(trace, "{}{} | RES {} | OBS owned=[{}] drops={} moved={} ab={} chunks={} used={} evt={}", text, env, res_b, listing_b, show_ids(z, &drops_b),
            show_ids(z, &moved_ids), after.0, after.1, after.2, evt).unwrap();
        let kind = format!("{}:{}", op.name, res_b.split(' ').next().unwrap_or(""));
        *kinds_hist.entry(kind).or_insert(0) += 1;
        n_ops += 1;
    }
    // ---------------- END: every owner is dropped in slot order; raw pointers and leaked references are not
    let text = "END".to_string();
    crate::set_current(pidx, total, &text);
    let mut unowned: Vec<u64> = vec![];
    let mut n_unowned = 0usize;
    for sl in bs.iter() {
        if !sl.is_owner() {
            unowned.extend(ids_of(&sl.cells()));
            n_unowned += n_cells(&sl.cells());
        }
    }
    begin_op(0, None);
    let r = catch_unwind(AssertUnwindSafe(|| {
        for sl in bs.iter_mut() {
            let old = std::mem::replace(sl, BS::Empty);
            galloc::with_rec(|| drop(old));
        }
    }));
    galloc::recording_off();
    let (end_drops, _) = end_op(0);
    begin_op(1, None);
    let _ = catch_unwind(AssertUnwindSafe(|| {
        for sl in ss.iter_mut() {
            let old = std::mem::replace(sl, SS::Empty);
            drop(old);
        }
    }));
    let (end_drops_s, _) = end_op(1);
    drop(bs);
    drop(bump);
    let mut fail = |name: &str, detail: String| {
        fails.push(format!("ORACLE C17 {} plan={} op={} END {}", name, pidx, total, detail));
    };
    if r.is_err() {
        fail("end-panic", "dropping the remaining owners panicked".to_string());
    }
    if end_drops != end_drops_s {
        fail("std-drops-differ", format!("bumpalo={} std={}", show_ids(z, &end_drops), show_ids(z, &end_drops_s)));
    }
    if z {
        let want = (next_id - 1) as usize - n_unowned;
        if z_dropped(0) as usize != want {
            fail("ledger-final", format!("zero-sized: created={} escaped-or-leaked={} destructor calls={}", next_id - 1, n_unowned, z_dropped(0)));
        }
    } else {
        for id in 1..next_id {
            let want = if unowned.contains(&id) { 0 } else { 1 };
            if drop_count(0, id) != want {
                fail("ledger-final", format!("id={} destructor ran {} times, expected {}", id, drop_count(0, id), want));
                break;
            }
        }
    }
    writeln!(trace, "END drops={}", show_ids(z, &end_drops)).unwrap();
    RunOut { trace, oracle_fails: fails, n_ops, res_kinds: kinds_hist.into_iter().collect() }
}
