//! `bvh_box box seed= plans= ops= profile= out= curplan=`  |  `bvh_box replay <file> out=`
//! Drives `bumpalo::boxed::Box` and `std::boxed::Box` side by side through generated or
//! replayed plans, writes the trace read by the Lean driver `bvdrv_box`, and reports
//! `ORACLE <prop> <name> plan=<k> op=<i> <detail>` lines.
mod bside;
mod elems;
mod exec;
mod galloc;
mod plan;
mod sside;
mod util;

use elems::*;
use exec::*;
use plan::*;
use std::io::Write;
use std::sync::Mutex;
use util::*;

#[global_allocator]
static GLOBAL: galloc::G = galloc::G;

static CURRENT: Mutex<String> = Mutex::new(String::new());
static OUT_PATH: Mutex<String> = Mutex::new(String::new());
static CURPLAN: Mutex<Option<std::fs::File>> = Mutex::new(None);

pub fn begin_plan(header: &str) {
    if let Ok(mut g) = CURPLAN.lock() {
        if let Some(f) = g.as_mut() {
            use std::io::{Seek, SeekFrom};
            let _ = f.set_len(0);
            let _ = f.seek(SeekFrom::Start(0));
            let _ = writeln!(f, "{}", header);
        }
    }
}

pub fn set_current(plan: usize, op_idx: usize, text: &str) {
    if let Ok(mut c) = CURRENT.lock() {
        c.clear();
        use std::fmt::Write as _;
        let _ = write!(c, "plan={} op={} {}", plan, op_idx, text);
    }
    if let Ok(mut g) = CURPLAN.lock() {
        if let Some(f) = g.as_mut() {
            let _ = writeln!(f, "{}", text);
        }
    }
    if std::env::var_os("BVH_TRACE_OPS").is_some() {
        eprintln!("BEGIN plan={} op={} {}", plan, op_idx, text);
    }
}

/// Called from inside the allocator when a crate call keeps asking after 300k refusals.
pub fn hang_exit() -> ! {
    galloc::recording_off();
    let cur = CURRENT.try_lock().map(|c| c.clone()).unwrap_or_default();
    let path = OUT_PATH.try_lock().map(|c| c.clone()).unwrap_or_default();
    if let Ok(mut f) = std::fs::OpenOptions::new().append(true).open(&path) {
        let _ = writeln!(f, "\nORACLE C17 does-not-terminate {}", cur);
    }
    std::process::exit(3);
}

fn run_kind(plan: &mut Plan, gen: Option<(Profile, usize)>) -> RunOut {
    match plan.kind {
        'Z' => run_plan::<Zs<0>, Zs<1>>(plan, gen),
        _ => run_plan::<El<0>, El<1>>(plan, gen),
    }
}

/// Fixed corner scenarios run against `std` side by side (everything here is O(1) although the lengths are huge:
/// zero-sized elements occupy no memory).
fn corner() -> Vec<String> {
    use bumpalo::{collections::Vec as BVec, Bump};
    use std::panic::{catch_unwind, AssertUnwindSafe};
    let mut fails = vec![];
    let mut check = |scenario: &str, b: Result<String, ()>, s: Result<String, ()>| {
        let show = |r: &Result<String, ()>| match r { Ok(x) => x.clone(), Err(()) => "panic".to_string() };
        if b != s {
            fails.push(format!("ORACLE C17 corner-std-differs plan=0 op=0 scenario={} bumpalo=[{}] std=[{}]", scenario, show(&b), show(&s)));
        }
    };
    static UNITS: [(); usize::MAX] = [(); usize::MAX];
    for n in [0usize, 1, 5, usize::MAX - 1, usize::MAX] {
        let src: &[()] = &UNITS[..n];
        // Vec<()> -> Box<[()]>: the box owns exactly the vector's elements
        let b = catch_unwind(AssertUnwindSafe(|| {
            let bump = Bump::new();
            let mut v: BVec<()> = BVec::new_in(&bump);
            v.extend_from_slice_copy(src);
            let (l0, c0) = (v.len(), v.capacity());
            let bx = v.into_boxed_slice();
            format!("len={} cap={} boxlen={}", l0, c0, bx.len())
        })).map_err(|_| ());
        let s = catch_unwind(AssertUnwindSafe(|| {
            let mut v: Vec<()> = Vec::new();
            v.extend_from_slice(src);
            let (l0, c0) = (v.len(), v.capacity());
            let bx = v.into_boxed_slice();
            format!("len={} cap={} boxlen={}", l0, c0, bx.len())
        })).map_err(|_| ());
        check(&format!("zst-vec-into-boxed-slice:n={}", n), b, s);
    }
    // formatting goes through the pointee's own impl *with the caller's formatter*: width, fill, alignment, sign, precision and
    // the alternate flag all reach it
    {
        let bump = Bump::new();
        macro_rules! fmt_case {
            ($name:expr, $fmt:literal, $val:expr) => {{
                let v = $val;
                let bx = bumpalo::boxed::Box::new_in($val, &bump);
                check(&format!("format:{}:{}", $name, $fmt), Ok(format!($fmt, bx)), Ok(format!($fmt, v)));
            }};
        }
        fmt_case!("i32", "[{:>7}]", 42i32);
        fmt_case!("i32", "[{:<7}]", 42i32);
        fmt_case!("i32", "[{:*^9}]", -42i32);
        fmt_case!("i32", "[{:+}]", 42i32);
        fmt_case!("i32", "[{:05}]", 42i32);
        fmt_case!("f64", "[{:.2}]", 3.14159f64);
        fmt_case!("f64", "[{:10.3}]", 3.14159f64);
        fmt_case!("f64", "[{:+08.1}]", 31415.9f64);
        fmt_case!("str", "[{:>8}]", "abc");
        fmt_case!("str", "[{:.2}]", "abcdef");
        fmt_case!("str", "[{:-<6.2}]", "abcdef");
        fmt_case!("i32", "[{:5?}]", 42i32);
        fmt_case!("i32", "[{:#?}]", 42i32);
        fmt_case!("opt", "[{:?}]", Some(7u8));
        fmt_case!("opt", "[{:#?}]", Some((1u8, "x")));
        fmt_case!("str", "[{:>8?}]", "a\"b");
    }
    // a boxed `Hasher` is the hasher it wraps: every `write_*` reaches the inner hasher's *own* method of that name (a hasher may
    // treat `write_u64(x)` differently from `write(&x.to_ne_bytes())`), and `finish` is the inner one's
    {
        use std::hash::Hasher;
        #[derive(Default)]
        struct Rec { log: Vec<String>, acc: u64 }
        impl Rec { fn note(&mut self, what: String, v: u64) { self.log.push(what); self.acc = self.acc.wrapping_mul(31).wrapping_add(v); } }
        impl Hasher for Rec {
            fn finish(&self) -> u64 { self.acc ^ 0x5bd1e995 }
            fn write(&mut self, b: &[u8]) { self.note(format!("write{:?}", b), b.iter().map(|x| *x as u64).sum()); }
            fn write_u8(&mut self, i: u8) { self.note(format!("u8:{}", i), (i as u64).wrapping_add(1)); }
            fn write_u16(&mut self, i: u16) { self.note(format!("u16:{}", i), (i as u64).wrapping_add(2)); }
            fn write_u32(&mut self, i: u32) { self.note(format!("u32:{}", i), (i as u64).wrapping_add(3)); }
            fn write_u64(&mut self, i: u64) { self.note(format!("u64:{}", i), i.wrapping_add(4)); }
            fn write_u128(&mut self, i: u128) { self.note(format!("u128:{}", i), (i as u64).wrapping_add(5)); }
            fn write_usize(&mut self, i: usize) { self.note(format!("usize:{}", i), (i as u64).wrapping_add(6)); }
            fn write_i8(&mut self, i: i8) { self.note(format!("i8:{}", i), (i as u64).wrapping_add(7)); }
            fn write_i16(&mut self, i: i16) { self.note(format!("i16:{}", i), (i as u64).wrapping_add(8)); }
            fn write_i32(&mut self, i: i32) { self.note(format!("i32:{}", i), (i as u64).wrapping_add(9)); }
            fn write_i64(&mut self, i: i64) { self.note(format!("i64:{}", i), (i as u64).wrapping_add(10)); }
            fn write_i128(&mut self, i: i128) { self.note(format!("i128:{}", i), (i as u64).wrapping_add(11)); }
            fn write_isize(&mut self, i: isize) { self.note(format!("isize:{}", i), (i as u64).wrapping_add(12)); }
        }
        fn drive<H: Hasher>(h: &mut H) {
            h.write_u8(200); h.write_u16(40000); h.write_u32(7); h.write_u64(u64::MAX - 1); h.write_u128(1 << 100); h.write_usize(12345);
            h.write_i8(-3); h.write_i16(-300); h.write_i32(-70000); h.write_i64(i64::MIN + 5); h.write_i128(-(1 << 90)); h.write_isize(-77);
            h.write(&[1, 2, 3]);
            std::hash::Hash::hash(&(5u32, "xy", -9i64), h);
        }
        let bump = Bump::new();
        let mut bare = Rec::default();
        drive(&mut bare);
        let mut bb = bumpalo::boxed::Box::new_in(Rec::default(), &bump);
        drive(&mut bb);
        let mut sb: Box<Rec> = Box::new(Rec::default());
        drive(&mut sb);
        let show = |log: &Vec<String>, fin: u64| format!("finish={} calls={}", fin, log.join(","));
        check("hasher-forwarding:vs-inner", Ok(show(&bb.log, bb.finish())), Ok(show(&bare.log, bare.finish())));
        check("hasher-forwarding:vs-std-box", Ok(show(&bb.log, bb.finish())), Ok(show(&sb.log, sb.finish())));
    }
    // `Box<dyn Any + Send>::downcast`: a failed downcast hands the *same* box back (nothing is dropped, the value is dropped once when
    // that box goes), a successful one hands the value on; the ledger of destructor runs is compared with `std`'s step by step
    {
        use std::any::Any;
        use std::sync::atomic::{AtomicUsize, Ordering::SeqCst};
        // the ledger is a static counter: a destructor that runs twice must show in the count, not corrupt the heap
        static DROPS: AtomicUsize = AtomicUsize::new(0);
        struct Cnt;
        impl Cnt { fn load(&self, _o: std::sync::atomic::Ordering) -> usize { DROPS.load(SeqCst) } fn clone(&self) -> Cnt { Cnt } }
        struct Arc;
        impl Arc { fn new(_x: AtomicUsize) -> Cnt { DROPS.store(0, SeqCst); Cnt } }
        struct Led(Cnt, u32);
        impl Drop for Led { fn drop(&mut self) { DROPS.fetch_add(1, SeqCst); } }
        let bump = Bump::new();
        for target in 0..3u8 {
            let run_b = || {
                let n = Arc::new(AtomicUsize::new(0));
                let mut log = vec![];
                let b: bumpalo::boxed::Box<dyn Any + Send> = unsafe {
                    let raw = bumpalo::boxed::Box::into_raw(bumpalo::boxed::Box::new_in(Led(n.clone(), 7), &bump));
                    bumpalo::boxed::Box::from_raw(raw as *mut (dyn Any + Send))
                };
                log.push(n.load(SeqCst));
                match target {
                    0 => match b.downcast::<Led>() { Ok(v) => { log.push(100 + v.1 as usize); log.push(n.load(SeqCst)); drop(v); } Err(e) => { log.push(200); drop(e); } },
                    1 => match b.downcast::<u32>() { Ok(v) => { log.push(300); drop(v); } Err(e) => { log.push(400); log.push(n.load(SeqCst)); log.push(e.is::<Led>() as usize); drop(e); } },
                    _ => match b.downcast::<String>() { Ok(v) => { log.push(500); drop(v); } Err(e) => { log.push(600); log.push(n.load(SeqCst)); let again = e.downcast::<Led>(); log.push(again.is_ok() as usize); log.push(n.load(SeqCst)); drop(again); } },
                }
                log.push(n.load(SeqCst));
                format!("{:?}", log)
            };
            let run_s = || {
                let n = Arc::new(AtomicUsize::new(0));
                let mut log = vec![];
                let b: Box<dyn Any + Send> = Box::new(Led(n.clone(), 7));
                log.push(n.load(SeqCst));
                match target {
                    0 => match b.downcast::<Led>() { Ok(v) => { log.push(100 + v.1 as usize); log.push(n.load(SeqCst)); drop(v); } Err(e) => { log.push(200); drop(e); } },
                    1 => match b.downcast::<u32>() { Ok(v) => { log.push(300); drop(v); } Err(e) => { log.push(400); log.push(n.load(SeqCst)); log.push(e.is::<Led>() as usize); drop(e); } },
                    _ => match b.downcast::<String>() { Ok(v) => { log.push(500); drop(v); } Err(e) => { log.push(600); log.push(n.load(SeqCst)); let again = e.downcast::<Led>(); log.push(again.is_ok() as usize); log.push(n.load(SeqCst)); drop(again); } },
                }
                log.push(n.load(SeqCst));
                format!("{:?}", log)
            };
            let b = catch_unwind(AssertUnwindSafe(run_b)).map_err(|_| ());
            let s_ = catch_unwind(AssertUnwindSafe(run_s)).map_err(|_| ());
            check(&format!("downcast-any-send:target={}", target), b, s_);
        }
    }
    // a value whose order is only partial (an incomparable pair exists): the box compares exactly as the value does,
    // operator by operator (`le` is not `!gt` here)
    let vals = [f64::NAN, f64::NEG_INFINITY, -1.0, -0.0, 0.0, 1.5, f64::INFINITY];
    let ops7 = |x: &dyn Fn() -> (bool, bool, bool, bool, bool, bool, Option<std::cmp::Ordering>)| {
        let (eq, ne, lt, le, gt, ge, pc) = x();
        format!("eq={} ne={} lt={} le={} gt={} ge={} pcmp={:?}", eq as u8, ne as u8, lt as u8, le as u8, gt as u8, ge as u8, pc)
    };
    for (i, &x) in vals.iter().enumerate() {
        for (j, &y) in vals.iter().enumerate() {
            let b = catch_unwind(AssertUnwindSafe(|| {
                let bump = Bump::new();
                let (p, q) = (bumpalo::boxed::Box::new_in(x, &bump), bumpalo::boxed::Box::new_in(y, &bump));
                ops7(&|| (p == q, p != q, p < q, p <= q, p > q, p >= q, PartialOrd::partial_cmp(&p, &q)))
            })).map_err(|_| ());
            let s = catch_unwind(AssertUnwindSafe(|| ops7(&|| (x == y, x != y, x < y, x <= y, x > y, x >= y, PartialOrd::partial_cmp(&x, &y))))).map_err(|_| ());
            check(&format!("partial-order-scalar:{}:{}", i, j), b, s);
            // the same through an unsized pointee (a boxed slice converted from an arena vector)
            let b = catch_unwind(AssertUnwindSafe(|| {
                let bump = Bump::new();
                let mk = |z: f64| {
                    let mut v: BVec<f64> = BVec::new_in(&bump);
                    v.extend_from_slice_copy(&[1.0, z]);
                    v.into_boxed_slice()
                };
                let (p, q) = (mk(x), mk(y));
                ops7(&|| (p == q, p != q, p < q, p <= q, p > q, p >= q, PartialOrd::partial_cmp(&p, &q)))
            })).map_err(|_| ());
            let s = catch_unwind(AssertUnwindSafe(|| {
                let (p, q): (Box<[f64]>, Box<[f64]>) = (vec![1.0, x].into_boxed_slice(), vec![1.0, y].into_boxed_slice());
                ops7(&|| (p == q, p != q, p < q, p <= q, p > q, p >= q, PartialOrd::partial_cmp(&p, &q)))
            })).map_err(|_| ());
            check(&format!("partial-order-slice:{}:{}", i, j), b, s);
        }
    }
    fails
}

fn main() {
    let args: Vec<String> = std::env::args().collect();
    let toks: Vec<&str> = args.iter().map(|s| s.as_str()).collect();
    std::panic::set_hook(Box::new(|info| {
        galloc::recording_off();
        if std::env::var_os("BVH_SHOW_PANICS").is_some() {
            eprintln!("panic: {}", info);
        }
    }));
    let dbg = cfg!(debug_assertions);
    let cmd = toks.get(1).copied().unwrap_or("");
    let out_path = kv(&toks, "out").unwrap_or("/dev/stdout").to_string();
    *OUT_PATH.lock().unwrap() = out_path.clone();
    if let Some(cp) = kv(&toks, "curplan") {
        *CURPLAN.lock().unwrap() = std::fs::File::create(cp).ok();
    }
    let mut out = std::io::BufWriter::new(std::fs::File::create(&out_path).expect("open out"));
    let mut summary: std::collections::BTreeMap<String, usize> = Default::default();
    let (mut n_ops, mut n_plans, mut n_fails) = (0usize, 0usize, 0usize);
    let mut do_plan = |plan: &mut Plan, gen: Option<(Profile, usize)>, out: &mut dyn Write| {
        let o = run_kind(plan, gen);
        out.write_all(o.trace.as_bytes()).unwrap();
        for f in &o.oracle_fails {
            writeln!(out, "{}", f).unwrap();
            n_fails += 1;
        }
        out.flush().unwrap();
        n_ops += o.n_ops;
        n_plans += 1;
        for (k, v) in o.res_kinds {
            *summary.entry(k).or_insert(0) += v;
        }
    };
    match cmd {
        "box" => {
            let seed: u64 = kv(&toks, "seed").and_then(|s| s.parse().ok()).unwrap_or(1);
            let n: usize = kv_usize(&toks, "plans").unwrap_or(10);
            let n_ops_per: usize = kv_usize(&toks, "ops").unwrap_or(40);
            let prof = profile_from_str(kv(&toks, "profile").unwrap_or("general"));
            let mut r = Rng::new(seed);
            for i in 0..n {
                let pseed = r.next() >> 1;
                let mut kr = Rng::new(pseed ^ 0xC0FFEE);
                let kind = kind_of(prof, &mut kr);
                let ns = 3 + kr.below(4) as usize;
                let mut plan = Plan { idx: i, seed: pseed, kind, ns, ops: vec![] };
                do_plan(&mut plan, Some((prof, n_ops_per)), &mut out);
            }
        }
        "corner" => {
            begin_plan("CORNER");
            for f in corner() {
                writeln!(out, "{}", f).unwrap();
            }
        }
        "replay" => {
            let path = toks.get(2).expect("replay <file>");
            let text = std::fs::read_to_string(path).expect("read plan file");
            if text.lines().any(|l| l.trim() == "CORNER") {
                for f in corner() {
                    writeln!(out, "{}", f).unwrap();
                }
            }
            for mut plan in Plan::parse(&text) {
                do_plan(&mut plan, None, &mut out);
            }
        }
        _ => {
            eprintln!("usage: bvh_box box seed=N plans=N ops=N profile=general|convert|any|panics|deleg|zst out=FILE [curplan=FILE] | bvh_box replay FILE out=FILE");
            std::process::exit(2);
        }
    }
    drop(do_plan);
    writeln!(out, "SUMMARY plans={} ops={} oracle_fails={} dbg={} kinds={}", n_plans, n_ops, n_fails, dbg as u8,
        summary.iter().map(|(k, v)| format!("{}={}", k, v)).collect::<Vec<_>>().join(",")).unwrap();
    out.flush().unwrap();
}
