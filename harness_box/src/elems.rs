//! Element types with observable destructors, and the two drop ledgers (side 0 = the run on
//! `bumpalo::boxed::Box`, side 1 = the run on `std::boxed::Box`).
//!
//! The ledgers are thread-local and pre-reserved, so that recording a drop never allocates
//! (destructors run inside crate calls and during unwinding).
use std::cell::RefCell;
use std::cmp::Ordering;
use std::fmt;
use std::hash::{Hash, Hasher};

pub const MAX_IDS: usize = 1 << 16;

pub struct Ledger {
    /// per id: how many times its destructor ran (whole plan)
    pub count: Vec<u8>,
    /// ids dropped since `begin_op`, in order (0 for zero-sized elements)
    pub op_drops: Vec<u64>,
    pub z_dropped: u64,
    pub drop_calls: u32,
    pub drop_panic_at: Option<u32>,
    pub fired: bool,
    pub overflow: bool,
}

impl Ledger {
    const fn new() -> Self {
        Ledger { count: Vec::new(), op_drops: Vec::new(), z_dropped: 0, drop_calls: 0, drop_panic_at: None, fired: false, overflow: false }
    }
}

thread_local! {
    pub static LEDGERS: [RefCell<Ledger>; 2] = const { [RefCell::new(Ledger::new()), RefCell::new(Ledger::new())] };
}

pub fn reset_plan() {
    LEDGERS.with(|ls| {
        for l in ls.iter() {
            let mut l = l.borrow_mut();
            l.count.clear();
            l.count.resize(MAX_IDS, 0);
            l.op_drops.clear();
            l.op_drops.reserve(1 << 12);
            l.z_dropped = 0;
            l.drop_calls = 0;
            l.drop_panic_at = None;
            l.fired = false;
            l.overflow = false;
        }
    });
}

/// start of an operation window on one side: clears the per-op drop log, arms the trigger
pub fn begin_op(side: usize, drop_panic_at: Option<u32>) {
    LEDGERS.with(|ls| {
        let mut l = ls[side].borrow_mut();
        l.op_drops.clear();
        l.drop_calls = 0;
        l.drop_panic_at = drop_panic_at;
        l.fired = false;
    });
}
/// end of the window: disarms; returns (ids dropped in the window, whether the injected panic fired)
pub fn end_op(side: usize) -> (Vec<u64>, bool) {
    LEDGERS.with(|ls| {
        let mut l = ls[side].borrow_mut();
        l.drop_panic_at = None;
        let v = l.op_drops.clone();
        l.op_drops.clear();
        (v, l.fired)
    })
}
pub fn drop_count(side: usize, id: u64) -> u8 {
    LEDGERS.with(|ls| ls[side].borrow().count.get(id as usize).copied().unwrap_or(0))
}
pub fn z_dropped(side: usize) -> u64 {
    LEDGERS.with(|ls| ls[side].borrow().z_dropped)
}
pub fn overflowed() -> bool {
    LEDGERS.with(|ls| ls[0].borrow().overflow || ls[1].borrow().overflow)
}

/// records a destructor call; returns true if this call must panic
fn record_drop(side: usize, id: u64, zst: bool) -> bool {
    LEDGERS
        .try_with(|ls| {
            let mut l = match ls[side].try_borrow_mut() {
                Ok(l) => l,
                Err(_) => return false,
            };
            if zst {
                l.z_dropped += 1;
            } else if (id as usize) < l.count.len() {
                let c = l.count[id as usize];
                l.count[id as usize] = c.saturating_add(1);
            } else {
                // an id that was never handed out: garbage read as an element
                l.overflow = true;
            }
            if l.op_drops.len() < l.op_drops.capacity() {
                l.op_drops.push(id);
            } else {
                l.overflow = true;
            }
            let k = l.drop_calls;
            l.drop_calls += 1;
            if l.drop_panic_at == Some(k) && !std::thread::panicking() {
                l.drop_panic_at = None;
                l.fired = true;
                true
            } else {
                false
            }
        })
        .unwrap_or(false)
}

/// What the executor needs from an element type.  Comparison, hashing and formatting look at
/// the value only (never at the id), so both sides and the model agree on them.
pub trait Cellish: 'static + Sized + Unpin + fmt::Debug + fmt::Display + Ord + Hash {
    const Z: bool;
    fn mk(id: u64, val: u32) -> Self;
    fn id(&self) -> u64;
    fn val(&self) -> u32;
    fn set_val(&mut self, v: u32);
}

/// sized element with a unique id, a value and a logging destructor; `S` = side
pub struct El<const S: usize> {
    pub id: u64,
    pub val: u32,
}
impl<const S: usize> Drop for El<S> {
    fn drop(&mut self) {
        if record_drop(S, self.id, false) {
            panic!("injected destructor panic");
        }
    }
}
impl<const S: usize> Cellish for El<S> {
    const Z: bool = false;
    fn mk(id: u64, val: u32) -> Self {
        El { id, val }
    }
    fn id(&self) -> u64 {
        self.id
    }
    fn val(&self) -> u32 {
        self.val
    }
    fn set_val(&mut self, v: u32) {
        self.val = v
    }
}
impl<const S: usize> PartialEq for El<S> {
    fn eq(&self, o: &Self) -> bool {
        self.val == o.val
    }
}
impl<const S: usize> Eq for El<S> {}
impl<const S: usize> PartialOrd for El<S> {
    fn partial_cmp(&self, o: &Self) -> Option<Ordering> {
        Some(self.val.cmp(&o.val))
    }
}
impl<const S: usize> Ord for El<S> {
    fn cmp(&self, o: &Self) -> Ordering {
        self.val.cmp(&o.val)
    }
}
impl<const S: usize> Hash for El<S> {
    fn hash<H: Hasher>(&self, h: &mut H) {
        self.val.hash(h)
    }
}
impl<const S: usize> fmt::Debug for El<S> {
    fn fmt(&self, f: &mut fmt::Formatter<'_>) -> fmt::Result {
        write!(f, "E{}", self.val)
    }
}
impl<const S: usize> fmt::Display for El<S> {
    fn fmt(&self, f: &mut fmt::Formatter<'_>) -> fmt::Result {
        write!(f, "{}", self.val)
    }
}

/// zero-sized element with a counting destructor (formats as an element of value 0)
pub struct Zs<const S: usize>;
impl<const S: usize> Drop for Zs<S> {
    fn drop(&mut self) {
        if record_drop(S, 0, true) {
            panic!("injected destructor panic");
        }
    }
}
impl<const S: usize> Cellish for Zs<S> {
    const Z: bool = true;
    fn mk(_id: u64, _val: u32) -> Self {
        Zs
    }
    fn id(&self) -> u64 {
        0
    }
    fn val(&self) -> u32 {
        0
    }
    fn set_val(&mut self, _v: u32) {}
}
impl<const S: usize> PartialEq for Zs<S> {
    fn eq(&self, _o: &Self) -> bool {
        true
    }
}
impl<const S: usize> Eq for Zs<S> {}
impl<const S: usize> PartialOrd for Zs<S> {
    fn partial_cmp(&self, _o: &Self) -> Option<Ordering> {
        Some(Ordering::Equal)
    }
}
impl<const S: usize> Ord for Zs<S> {
    fn cmp(&self, _o: &Self) -> Ordering {
        Ordering::Equal
    }
}
impl<const S: usize> Hash for Zs<S> {
    fn hash<H: Hasher>(&self, h: &mut H) {
        0u32.hash(h)
    }
}
impl<const S: usize> fmt::Debug for Zs<S> {
    fn fmt(&self, f: &mut fmt::Formatter<'_>) -> fmt::Result {
        write!(f, "E0")
    }
}
impl<const S: usize> fmt::Display for Zs<S> {
    fn fmt(&self, f: &mut fmt::Formatter<'_>) -> fmt::Result {
        write!(f, "0")
    }
}

/// second concrete type behind `dyn Any` (type tag 1): a newtype around the element
pub struct Wrap<T>(pub T);

/// `id:val` (or `z`) of a run of elements, as printed in traces
pub fn show_cells<T: Cellish>(xs: &[T]) -> String {
    let mut s = String::new();
    for (i, x) in xs.iter().enumerate() {
        if i > 0 {
            s.push(',');
        }
        show_cell_into(&mut s, x);
    }
    s
}
pub fn show_cell_into<T: Cellish>(s: &mut String, x: &T) {
    use std::fmt::Write;
    if T::Z {
        s.push('z');
    } else {
        let _ = write!(s, "{}:{}", x.id(), x.val());
    }
}
pub fn show_cell<T: Cellish>(x: &T) -> String {
    let mut s = String::new();
    show_cell_into(&mut s, x);
    s
}
pub fn show_ids(z: bool, ids: &[u64]) -> String {
    let mut s = String::from("[");
    for (i, x) in ids.iter().enumerate() {
        if i > 0 {
            s.push(',');
        }
        if z {
            s.push('z');
        } else {
            s.push_str(&x.to_string());
        }
    }
    s.push(']');
    s
}
