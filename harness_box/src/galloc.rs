//! Instrumented global allocator: records the requests made while a crate call is
//! executing on the recording thread, injects refusals, and keeps an independent ledger.
use std::alloc::{GlobalAlloc, Layout, System};
use std::cell::{Cell, UnsafeCell};
use std::sync::atomic::{AtomicU64, Ordering};

#[derive(Clone, Copy, Debug, PartialEq, Eq)]
pub enum Ev {
    Malloc { size: usize, align: usize, addr: usize }, // addr 0 = refused
    Free { addr: usize, size: usize, align: usize },
}

#[derive(Clone, Copy, Debug, PartialEq, Eq)]
pub enum Fault {
    None,
    Kth(u32),  // refuse the k-th recorded request of the plan (0-based)
    Ge(usize), // refuse every recorded request of at least this size
    All,       // refuse every recorded request
    From(u32), // refuse every recorded request from the k-th on
}

const LOG_CAP: usize = 8192;
/// Requests above this size are always refused while recording (nothing huge is ever touched).
pub const HUGE: usize = 1 << 25;
/// More refusals than this inside one crate call = the call does not terminate.
pub const HANG_REFUSALS: u64 = 300_000;

struct Tl {
    rec: Cell<bool>,
    n: Cell<usize>,
    overflow: Cell<bool>,
    log: UnsafeCell<[Ev; LOG_CAP]>,
    fault: Cell<Fault>,
    req_no: Cell<u32>,
    refused_in_call: Cell<u64>,
    /// shape > 0: hand out blocks whose address is only minimally aligned
    /// (addr ≡ align mod 2·align); needs the side table below.
    shape: Cell<bool>,
    shaped_n: Cell<usize>,
    shaped: UnsafeCell<[(usize, usize, usize, usize); 512]>, // (user addr, real addr, real size, real align)
}

thread_local! {
    static TL: Tl = const { Tl {
        rec: Cell::new(false), n: Cell::new(0), overflow: Cell::new(false),
        log: UnsafeCell::new([Ev::Free{addr:0,size:0,align:0}; LOG_CAP]),
        fault: Cell::new(Fault::None), req_no: Cell::new(0), refused_in_call: Cell::new(0),
        shape: Cell::new(false), shaped_n: Cell::new(0),
        shaped: UnsafeCell::new([(0,0,0,0); 512]),
    } };
}

pub static HANG_FLAG: AtomicU64 = AtomicU64::new(0);

pub struct G;

unsafe impl GlobalAlloc for G {
    unsafe fn alloc(&self, layout: Layout) -> *mut u8 {
        let recording = TL.try_with(|t| t.rec.get()).unwrap_or(false);
        if !recording {
            return System.alloc(layout);
        }
        TL.with(|t| {
            let k = t.req_no.get();
            t.req_no.set(k + 1);
            let refuse = layout.size() > HUGE
                || match t.fault.get() {
                    Fault::None => false,
                    Fault::Kth(j) => j == k,
                    Fault::Ge(s) => layout.size() >= s,
                    Fault::All => true,
                    Fault::From(j) => k >= j,
                };
            let p = if refuse {
                let r = t.refused_in_call.get() + 1;
                t.refused_in_call.set(r);
                if r > HANG_REFUSALS {
                    HANG_FLAG.store(r, Ordering::SeqCst);
                    // cannot unwind out of an allocator; report and leave
                    crate::hang_exit();
                }
                std::ptr::null_mut()
            } else if t.shape.get() && t.shaped_n.get() < 512 {
                // over-allocate with doubled alignment and offset by `align` if the block
                // happens to be 2·align-aligned, so that the result is only `align`-aligned.
                let a = layout.align();
                match Layout::from_size_align(layout.size() + a, a * 2) {
                    Ok(real) => {
                        let rp = System.alloc(real);
                        if rp.is_null() {
                            rp
                        } else {
                            let up = rp.add(a);
                            let tab = &mut *t.shaped.get();
                            let i = t.shaped_n.get();
                            tab[i] = (up as usize, rp as usize, real.size(), real.align());
                            t.shaped_n.set(i + 1);
                            up
                        }
                    }
                    Err(_) => System.alloc(layout),
                }
            } else {
                System.alloc(layout)
            };
            push(t, Ev::Malloc { size: layout.size(), align: layout.align(), addr: p as usize });
            p
        })
    }

    unsafe fn dealloc(&self, ptr: *mut u8, layout: Layout) {
        let recording = TL.try_with(|t| t.rec.get()).unwrap_or(false);
        if recording {
            TL.with(|t| push(t, Ev::Free { addr: ptr as usize, size: layout.size(), align: layout.align() }));
        }
        // shaped blocks are looked up whether or not we are recording
        let shaped = TL
            .try_with(|t| {
                let n = t.shaped_n.get();
                if n == 0 {
                    return None;
                }
                let tab = &mut *t.shaped.get();
                for i in 0..n {
                    if tab[i].0 == ptr as usize {
                        let e = tab[i];
                        tab[i] = tab[n - 1];
                        t.shaped_n.set(n - 1);
                        return Some(e);
                    }
                }
                None
            })
            .unwrap_or(None);
        match shaped {
            Some((_, real, rs, ra)) => System.dealloc(real as *mut u8, Layout::from_size_align_unchecked(rs, ra)),
            None => System.dealloc(ptr, layout),
        }
    }
}

fn push(t: &Tl, e: Ev) {
    let n = t.n.get();
    if n < LOG_CAP {
        unsafe { (*t.log.get())[n] = e };
        t.n.set(n + 1);
    } else {
        t.overflow.set(true);
    }
}

/// Run `f` with recording on; returns its result and the events it caused.
pub fn record<R>(f: impl FnOnce() -> R) -> (R, Vec<Ev>) {
    TL.with(|t| {
        t.n.set(0);
        t.refused_in_call.set(0);
        t.rec.set(true);
    });
    struct Off;
    impl Drop for Off {
        fn drop(&mut self) {
            TL.with(|t| t.rec.set(false));
        }
    }
    let off = Off;
    let r = f();
    drop(off);
    let evs = TL.with(|t| {
        let n = t.n.get();
        let log = unsafe { &*t.log.get() };
        log[..n].to_vec()
    });
    (r, evs)
}

/// Called from the panic hook so that boxing the payload is not recorded.
pub fn recording_off() {
    let _ = TL.try_with(|t| t.rec.set(false));
}
pub fn recording_on() {
    let _ = TL.try_with(|t| t.rec.set(true));
}
pub fn is_recording() -> bool {
    TL.try_with(|t| t.rec.get()).unwrap_or(false)
}
pub fn take_events_so_far() -> Vec<Ev> {
    TL.with(|t| {
        let n = t.n.get();
        let log = unsafe { &*t.log.get() };
        log[..n].to_vec()
    })
}
pub fn set_fault(f: Fault) {
    TL.with(|t| {
        t.fault.set(f);
        t.req_no.set(0);
    });
}
pub fn set_shape(on: bool) {
    TL.with(|t| t.shape.set(on));
}
pub fn log_overflowed() -> bool {
    TL.with(|t| t.overflow.replace(false))
}

// ---- additions of the box family: recording only around crate calls inside one operation ----
/// start of an operation: empties the event log
pub fn reset_log() {
    TL.with(|t| {
        t.n.set(0);
        t.refused_in_call.set(0);
    });
}
/// Run one crate call with recording on (events accumulate until the next `reset_log`).
pub fn with_rec<R>(f: impl FnOnce() -> R) -> R {
    struct Off;
    impl Drop for Off {
        fn drop(&mut self) {
            recording_off();
        }
    }
    recording_on();
    let off = Off;
    let r = f();
    drop(off);
    r
}
pub fn n_events() -> usize {
    TL.with(|t| t.n.get())
}
