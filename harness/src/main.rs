mod arena;
mod galloc;
mod types;
mod util;

use arena::*;
use bumpalo::Bump;
use galloc::Fault;
use std::io::Write;
use std::sync::Mutex;
use util::*;

#[global_allocator]
static GLOBAL: galloc::G = galloc::G;

static CURRENT: Mutex<String> = Mutex::new(String::new());
static OUT_PATH: Mutex<String> = Mutex::new(String::new());
static PLAN_SO_FAR: Mutex<String> = Mutex::new(String::new());
static CURPLAN: Mutex<Option<std::fs::File>> = Mutex::new(None);

pub fn begin_plan(header: &str) {
    if let Ok(mut p) = PLAN_SO_FAR.lock() {
        p.clear();
        p.push_str(header);
        p.push('\n');
    }
    if let Ok(mut g) = CURPLAN.lock() {
        if let Some(f) = g.as_mut() {
            use std::io::{Seek, SeekFrom};
            let _ = f.set_len(0);
            let _ = f.seek(SeekFrom::Start(0));
            let _ = writeln!(f, "{}", header);
        }
    }
}

pub fn set_current(plan: usize, op_idx: usize, op: &Op) {
    let was = galloc::is_recording();
    galloc::recording_off();
    if let Ok(mut c) = CURRENT.lock() {
        c.clear();
        use std::fmt::Write as _;
        let _ = write!(c, "plan={} op={} {}", plan, op_idx, op.to_text());
    }
    if let Ok(mut p) = PLAN_SO_FAR.lock() {
        p.push_str(&op.to_text());
        p.push('\n');
    }
    if let Ok(mut g) = CURPLAN.lock() {
        if let Some(f) = g.as_mut() {
            let _ = writeln!(f, "{}", op.to_text());
        }
    }
    if std::env::var_os("BVH_TRACE_OPS").is_some() {
        eprintln!("BEGIN plan={} op={} {}", plan, op_idx, op.to_text());
    }
    if was {
        galloc::recording_on();
    }
}

/// Called from inside the allocator when a crate call keeps asking after 300k refusals.
pub fn hang_exit() -> ! {
    galloc::recording_off();
    let cur = CURRENT.try_lock().map(|c| c.clone()).unwrap_or_default();
    let path = OUT_PATH.try_lock().map(|c| c.clone()).unwrap_or_default();
    if let Ok(mut f) = std::fs::OpenOptions::new().append(true).open(&path) {
        let _ = writeln!(f, "\nORACLE C09 does-not-terminate {}", cur);
    }
    let plan = PLAN_SO_FAR.try_lock().map(|c| c.clone()).unwrap_or_default();
    let _ = std::fs::write(format!("{}.hangplan", path), plan);
    let _ = writeln!(std::io::stdout(), "ORACLE C09 does-not-terminate {}", cur);
    let _ = std::io::stdout().flush();
    std::process::exit(3);
}

fn static_addr() -> usize {
    // a chunk-less arena hands out its (static) empty chunk's address for a zero-sized request
    let b = bumpalo::Bump::new();
    b.alloc_layout(std::alloc::Layout::from_size_align(0, 1).unwrap()).as_ptr() as usize
}
fn footer_overhead() -> usize {
    let b = bumpalo::Bump::new();
    b.alloc(1u8);
    b.allocated_bytes_including_metadata() - b.allocated_bytes()
}

fn run_m(plan: &mut Plan, gen: Option<(Profile, usize)>, sa: usize, fo: usize) -> Out {
    match plan.m {
        1 => run_plan::<1>(plan, gen, sa, fo),
        2 => run_plan::<2>(plan, gen, sa, fo),
        4 => run_plan::<4>(plan, gen, sa, fo),
        8 => run_plan::<8>(plan, gen, sa, fo),
        _ => run_plan::<16>(plan, gen, sa, fo),
    }
}

/// C04: every way of constructing a `Bump<N>` must refuse an unsupported minimum alignment (not a power of two, or
/// above `CHUNK_ALIGN` = 16) by panicking, and accept the supported ones.  Each constructor is instantiated for a list
/// of `N` under `catch_unwind`; an accepted unsupported `N` is also asked for one allocation, whose alignment is reported.
fn ctor_probe() -> Out {
    use std::panic::{catch_unwind, AssertUnwindSafe};
    let mut o = Out { trace: String::new(), oracle_fails: vec![], n_ops: 0, res_kinds: Default::default() };
    fn supported(n: usize) -> bool {
        n.is_power_of_two() && n <= 16
    }
    macro_rules! probe {
        ($($n:literal),*) => {$(
            {
                let ctors: Vec<(&str, Box<dyn Fn() -> Option<Bump<$n>>>)> = vec![
                    ("with_min_align", Box::new(|| Some(Bump::<$n>::with_min_align()))),
                    ("with_min_align_and_capacity(64)", Box::new(|| Some(Bump::<$n>::with_min_align_and_capacity(64)))),
                    ("try_with_min_align_and_capacity(64)", Box::new(|| Bump::<$n>::try_with_min_align_and_capacity(64).ok())),
                    ("try_with_min_align_and_capacity(0)", Box::new(|| Bump::<$n>::try_with_min_align_and_capacity(0).ok())),
                    ("Default::default", Box::new(|| Some(<Bump<$n> as Default>::default()))),
                    ("Option::unwrap_or_default", Box::new(|| Some(None::<Bump<$n>>.unwrap_or_default()))),
                ];
                for (name, c) in ctors {
                    let r = catch_unwind(AssertUnwindSafe(|| c()));
                    o.n_ops += 1;
                    let kind = match &r { Ok(Some(_)) => "ok", Ok(None) => "err", Err(_) => "panic" };
                    o.trace.push_str(&format!("# ctor {} N={} -> {}\n", name, $n, kind));
                    *o.res_kinds.entry(format!("ctor:{}", kind)).or_insert(0) += 1;
                    match (supported($n), &r) {
                        (false, Ok(Some(b))) => {
                            let p = catch_unwind(AssertUnwindSafe(|| b.alloc_layout(std::alloc::Layout::from_size_align(1, 1).unwrap()).as_ptr() as usize));
                            o.oracle_fails.push(format!("ORACLE C04 ctor-accepts-unsupported-min-align plan=0 op=0 ctor={} N={} first-pointer={:?}", name, $n, p.ok().map(|p| p % ($n as usize).max(1))));
                        }
                        (false, Ok(None)) => {
                            o.oracle_fails.push(format!("ORACLE C04 ctor-unsupported-min-align-not-a-panic plan=0 op=0 ctor={} N={}", name, $n));
                        }
                        (true, Err(_)) => {
                            o.oracle_fails.push(format!("ORACLE C04 ctor-rejects-supported-min-align plan=0 op=0 ctor={} N={}", name, $n));
                        }
                        _ => {}
                    }
                }
            }
        )*};
    }
    probe!(0, 1, 2, 3, 4, 5, 6, 8, 12, 16, 24, 32, 64, 128, 256);
    o
}

fn main() {
    let args: Vec<String> = std::env::args().collect();
    let toks: Vec<&str> = args.iter().map(|s| s.as_str()).collect();
    std::panic::set_hook(Box::new(|info| {
        let was = galloc::is_recording();
        galloc::recording_off();
        // panics raised inside the standard library (debug precondition checks of ptr::copy_nonoverlapping,
        // slice::from_raw_parts, …) cannot unwind and abort the process: always show what they say
        let in_std = info.location().map(|l| l.file().contains("/library/")).unwrap_or(false);
        if !was || in_std || std::env::var_os("BVH_SHOW_PANICS").is_some() {
            eprintln!("harness panic (recording={}): {}", was, info);
        }
    }));
    let cmd = toks.get(1).copied().unwrap_or("");
    let out_path = kv(&toks, "out").unwrap_or("/dev/stdout").to_string();
    let plans_path = kv(&toks, "plans_out").map(|s| s.to_string());
    *OUT_PATH.lock().unwrap() = out_path.clone();
    if let Some(cp) = kv(&toks, "curplan") {
        *CURPLAN.lock().unwrap() = std::fs::File::create(cp).ok();
    }
    let mut out = std::io::BufWriter::new(std::fs::File::create(&out_path).expect("open out"));
    let sa = static_addr();
    let fo = footer_overhead();
    let mut summary: std::collections::BTreeMap<String, usize> = Default::default();
    let mut n_ops = 0usize;
    let mut n_plans = 0usize;
    let mut fails: Vec<String> = vec![];
    let mut plans_txt = String::new();
    let mut emit = |o: Out, plan: Option<&Plan>, out: &mut dyn Write| {
        out.write_all(o.trace.as_bytes()).unwrap();
        for f in &o.oracle_fails {
            writeln!(out, "{}", f).unwrap();
            fails.push(f.clone());
        }
        out.flush().unwrap();
        n_ops += o.n_ops;
        n_plans += 1;
        for (k, v) in o.res_kinds {
            *summary.entry(k).or_insert(0) += v;
        }
        if let (Some(plan), true) = (plan, plans_path.is_some()) {
            plans_txt.push_str(&plan.header(sa));
            plans_txt.push('\n');
            for op in &plan.ops {
                plans_txt.push_str(&op.to_text());
                plans_txt.push('\n');
            }
            plans_txt.push_str("END\n");
        }
    };
    match cmd {
        "arena" => {
            let seed: u64 = kv(&toks, "seed").and_then(|s| s.parse().ok()).unwrap_or(1);
            let n: usize = kv_usize(&toks, "plans").unwrap_or(10);
            let n_ops_per: usize = kv_usize(&toks, "ops").unwrap_or(40);
            let prof = profile_from_str(kv(&toks, "profile").unwrap_or("general"));
            let faults = kv(&toks, "faults").unwrap_or("some");
            let shape = kv(&toks, "shape").unwrap_or("0");
            let ms: Vec<usize> = kv(&toks, "ms").unwrap_or("1,2,4,8,16").split(',').filter_map(|s| s.parse().ok()).collect();
            let skip: Vec<usize> = kv(&toks, "skip").unwrap_or("").split(',').filter_map(|s| s.parse().ok()).collect();
            let mut r = Rng::new(seed);
            for i in 0..n {
                let m = ms[i % ms.len()];
                let pseed = r.next() >> 1;
                if skip.contains(&i) {
                    continue;
                }
                let mut fr = Rng::new(pseed ^ 0xF00D);
                let fault = match faults {
                    "none" => Fault::None,
                    "all" => match fr.below(4) {
                        0 => Fault::All,
                        1 => Fault::Kth(fr.below(6) as u32),
                        2 => Fault::From(fr.below(6) as u32),
                        _ => Fault::Ge(fr.pick(&[1usize, 500, 600, 1000, 2000, 4096, 8000])),
                    },
                    _ => match fr.weighted(&[60, 10, 10, 10, 10]) {
                        0 => Fault::None,
                        1 => Fault::All,
                        2 => Fault::Kth(fr.below(6) as u32),
                        3 => Fault::From(fr.below(6) as u32),
                        _ => Fault::Ge(fr.pick(&[500usize, 600, 1000, 2000, 4096, 8000])),
                    },
                };
                let uniform = if prof == Profile::Uniform {
                    let cands: Vec<usize> = [1usize, 2, 4, 8, 16].iter().copied().filter(|a| *a >= m).collect();
                    Some(fr.pick(&cands))
                } else {
                    None
                };
                let shape_on = match shape {
                    "1" => true,
                    "mix" => fr.chance(1, 2),
                    _ => false,
                };
                let mut plan = Plan { idx: i, seed: pseed, m, fault, shape: shape_on, uniform, ops: vec![] };
                let o = run_m(&mut plan, Some((prof, n_ops_per)), sa, fo);
                emit(o, Some(&plan), &mut out);
            }
        }
        "pair" => {
            // two arenas interleaved on one thread (C20: isolation)
            let seed: u64 = kv(&toks, "seed").and_then(|s| s.parse().ok()).unwrap_or(1);
            let n: usize = kv_usize(&toks, "plans").unwrap_or(10);
            let n_ops_per: usize = kv_usize(&toks, "ops").unwrap_or(30);
            let prof = profile_from_str(kv(&toks, "profile").unwrap_or("general"));
            let mut r = Rng::new(seed);
            for i in 0..n {
                let m = [1usize, 2, 4, 8, 16][i % 5];
                let (s1, s2) = (r.next() >> 1, r.next() >> 1);
                let fault = if r.chance(1, 4) { Fault::Kth(r.below(6) as u32) } else { Fault::None };
                let mut p1 = Plan { idx: 2 * i, seed: s1, m, fault, shape: false, uniform: None, ops: vec![] };
                let mut p2 = Plan { idx: 2 * i + 1, seed: s2, m, fault, shape: false, uniform: None, ops: vec![] };
                let (o1, o2) = match m {
                    1 => run_pair::<1>(&mut p1, &mut p2, prof, n_ops_per, sa, fo),
                    2 => run_pair::<2>(&mut p1, &mut p2, prof, n_ops_per, sa, fo),
                    4 => run_pair::<4>(&mut p1, &mut p2, prof, n_ops_per, sa, fo),
                    8 => run_pair::<8>(&mut p1, &mut p2, prof, n_ops_per, sa, fo),
                    _ => run_pair::<16>(&mut p1, &mut p2, prof, n_ops_per, sa, fo),
                };
                emit(o1, Some(&p1), &mut out);
                emit(o2, Some(&p2), &mut out);
            }
        }
        "threads" => {
            // each thread drives its own arena concurrently (C20); traces are written after the join
            let seed: u64 = kv(&toks, "seed").and_then(|s| s.parse().ok()).unwrap_or(1);
            let rounds: usize = kv_usize(&toks, "plans").unwrap_or(4);
            let nthreads: usize = kv_usize(&toks, "threads").unwrap_or(4);
            let n_ops_per: usize = kv_usize(&toks, "ops").unwrap_or(40);
            let prof = profile_from_str(kv(&toks, "profile").unwrap_or("general"));
            let mut r = Rng::new(seed);
            for round in 0..rounds {
                let barrier = std::sync::Arc::new(std::sync::Barrier::new(nthreads));
                let mut handles = vec![];
                for t in 0..nthreads {
                    let pseed = r.next() >> 1;
                    let m = [1usize, 2, 4, 8, 16][(round + t) % 5];
                    let b = barrier.clone();
                    handles.push(std::thread::spawn(move || {
                        let mut plan = Plan { idx: round * nthreads + t, seed: pseed, m, fault: Fault::None, shape: false, uniform: None, ops: vec![] };
                        b.wait();
                        run_m(&mut plan, Some((prof, n_ops_per)), sa, fo)
                    }));
                }
                for h in handles {
                    let o = h.join().expect("worker thread");
                    emit(o, None, &mut out);
                }
            }
        }
        "ctor" => {
            let o = ctor_probe();
            emit(o, None, &mut out);
        }
        "replay" => {
            let path = toks.get(2).expect("replay <file>");
            let text = std::fs::read_to_string(path).expect("read plan file");
            if text.lines().any(|l| l.trim() == "CTOR") {
                let o = ctor_probe();
                emit(o, None, &mut out);
            }
            for mut plan in Plan::parse(&text) {
                let o = run_m(&mut plan, None, sa, fo);
                emit(o, Some(&plan), &mut out);
            }
        }
        _ => {
            eprintln!("usage: bvh arena seed=N plans=N ops=N profile=P faults=none|some|all ms=1,2 out=FILE | bvh replay FILE out=FILE");
            std::process::exit(2);
        }
    }
    drop(emit);
    if let Some(p) = plans_path {
        std::fs::write(p, plans_txt).unwrap();
    }
    writeln!(out, "SUMMARY plans={} ops={} oracle_fails={} kinds={}", n_plans, n_ops, fails.len(),
        summary.iter().map(|(k, v)| format!("{}={}", k, v)).collect::<Vec<_>>().join(",")).unwrap();
    out.flush().unwrap();
}
