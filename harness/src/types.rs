//! Concrete value / element types used to drive the typed API surface.
use std::cell::RefCell;

macro_rules! aligned {
    ($name:ident, $al:literal, $n:literal) => {
        #[repr(C, align($al))]
        #[derive(Clone, Copy, PartialEq, Eq, Debug)]
        pub struct $name(pub [u8; $n]);
        impl Default for $name {
            fn default() -> Self {
                $name([0u8; $n])
            }
        }
    };
}

aligned!(B0, 1, 0);
aligned!(B1, 1, 1);
aligned!(B3, 1, 3);
aligned!(B8, 1, 8);
aligned!(B100, 1, 100);
aligned!(B449, 1, 449);
aligned!(B1000, 1, 1000);
aligned!(B5000, 1, 5000);
aligned!(A2x6, 2, 6);
aligned!(A4x12, 4, 12);
aligned!(A8x8, 8, 8);
aligned!(A8x40, 8, 40);
aligned!(A16x16, 16, 16);
aligned!(A16x48, 16, 48);
aligned!(A32x32, 32, 32);
aligned!(A64x64, 64, 64);
aligned!(Z64, 64, 0);
aligned!(A4096, 4096, 4096);
aligned!(Z16, 16, 0);
aligned!(A2x2, 2, 2);
aligned!(A4x4, 4, 4);
aligned!(A8x400, 8, 400);

pub const N_TYPES: usize = 22;

/// `with_ty!(idx, T => expr)` evaluates `expr` with `T` bound to the idx-th value type.
#[macro_export]
macro_rules! with_ty {
    ($idx:expr, $T:ident => $body:expr) => {{
        use $crate::types::*;
        match $idx {
            0 => { type $T = B0; $body }
            1 => { type $T = B1; $body }
            2 => { type $T = B3; $body }
            3 => { type $T = B8; $body }
            4 => { type $T = B100; $body }
            5 => { type $T = B449; $body }
            6 => { type $T = B1000; $body }
            7 => { type $T = B5000; $body }
            8 => { type $T = A2x6; $body }
            9 => { type $T = A4x12; $body }
            10 => { type $T = A8x8; $body }
            11 => { type $T = A8x40; $body }
            12 => { type $T = A16x16; $body }
            13 => { type $T = A16x48; $body }
            14 => { type $T = A32x32; $body }
            15 => { type $T = A64x64; $body }
            16 => { type $T = Z64; $body }
            17 => { type $T = A4096; $body }
            18 => { type $T = Z16; $body }
            19 => { type $T = A2x2; $body }
            20 => { type $T = A4x4; $body }
            _ => { type $T = A8x400; $body }
        }
    }};
}

/// Build a value of a plain-bytes type from a byte pattern.
pub fn mk<T: Copy>(pat: &[u8]) -> T {
    let n = std::mem::size_of::<T>();
    assert!(pat.len() >= n);
    let mut v = std::mem::MaybeUninit::<T>::uninit();
    unsafe {
        std::ptr::copy_nonoverlapping(pat.as_ptr(), v.as_mut_ptr() as *mut u8, n);
        v.assume_init()
    }
}

pub fn pattern(tag: u64, n: usize) -> Vec<u8> {
    let mut v = Vec::with_capacity(n);
    let mut x = tag.wrapping_mul(0x9E37_79B9_7F4A_7C15) | 1;
    for i in 0..n {
        x ^= x << 13;
        x ^= x >> 7;
        x ^= x << 17;
        v.push((x as u8) ^ (i as u8).wrapping_mul(31) | 1); // never 0: distinguishes from zero fill
    }
    v
}

thread_local! {
    pub static DROPS: RefCell<Vec<u64>> = const { RefCell::new(Vec::new()) };
}

/// Error token with an observable destructor.
#[derive(Debug)]
pub struct Tok(pub u64);
impl Drop for Tok {
    fn drop(&mut self) {
        let id = self.0;
        DROPS.with(|d| d.borrow_mut().push(id));
    }
}
pub fn drops_of(id: u64) -> usize {
    DROPS.with(|d| d.borrow().iter().filter(|x| **x == id).count())
}
pub fn clear_drops() {
    DROPS.with(|d| d.borrow_mut().clear());
}
