//! Arena family: plan grammar, generator, executor on the real crate, model-independent oracles.
use crate::galloc::{self, Ev, Fault};
use crate::types::{self, mk, pattern, Tok};
use crate::util::*;
use crate::with_ty;
use allocator_api2::alloc::Allocator;
use bumpalo::Bump;
use std::alloc::Layout;
use std::fmt::Write as _;
use std::panic::{catch_unwind, AssertUnwindSafe};
use std::ptr::NonNull;

#[derive(Clone, Debug, PartialEq)]
pub enum Inner {
    Keep(usize, usize),
    Release(usize, usize),
}

#[derive(Clone, Debug, PartialEq)]
pub enum Op {
    New { cap: usize, f: bool },
    Alloc { sz: usize, al: usize, f: bool },
    Val { ty: usize, f: bool, with: bool },
    Atw { ty: usize, ok: bool, inner: Vec<Inner>, f: bool },
    Slice { kind: u8, ety: usize, n: usize, f: bool }, // kind 0 copy,1 clone,2 str(ety ignored),3 fill_with,4 fill_copy,5 fill_clone,6 fill_default,7 fill_iter
    TFill { ety: usize, n: usize, errat: Option<usize>, iter: bool, inner: Vec<Inner> },
    /// slice fill with droppable elements; the closure / Clone / iterator panics at index `at` (None = never)
    PFill { kind: u8, n: usize, at: Option<usize> },
    /// alloc_try_with / try_alloc_try_with whose initialiser panics
    PAtw { ty: usize, f: bool },
    AAlloc { sz: usize, al: usize },
    AFree { id: usize },
    AGrow { id: usize, sz: usize, al: usize, zeroed: bool },
    AShrink { id: usize, sz: usize, al: usize },
    Write { id: usize },
    Reset,
    Limit(Option<usize>),
    SendAlloc { sz: usize, al: usize },
    Drop,
}

pub fn inner_to_str(inner: &[Inner]) -> String {
    if inner.is_empty() {
        return "-".into();
    }
    inner
        .iter()
        .map(|i| match i {
            Inner::Keep(s, a) => format!("k:{}:{}", s, a),
            Inner::Release(s, a) => format!("r:{}:{}", s, a),
        })
        .collect::<Vec<_>>()
        .join("+")
}
fn inner_from_str(s: &str) -> Vec<Inner> {
    if s == "-" {
        return vec![];
    }
    s.split('+')
        .filter_map(|p| {
            let q: Vec<&str> = p.split(':').collect();
            if q.len() != 3 {
                return None;
            }
            let sz = q[1].parse().ok()?;
            let al = q[2].parse().ok()?;
            Some(if q[0] == "k" { Inner::Keep(sz, al) } else { Inner::Release(sz, al) })
        })
        .collect()
}

impl Op {
    pub fn to_text(&self) -> String {
        let b = |x: &bool| if *x { 1 } else { 0 };
        match self {
            Op::New { cap, f } => format!("new cap={} f={}", cap, b(f)),
            Op::Alloc { sz, al, f } => format!("alloc sz={} al={} f={}", sz, al, b(f)),
            Op::Val { ty, f, with } => format!("val ty={} f={} with={}", ty, b(f), b(with)),
            Op::Atw { ty, ok, inner, f } => {
                format!("atw ty={} ret={} inner={} f={}", ty, if *ok { "ok" } else { "err" }, inner_to_str(inner), b(f))
            }
            Op::Slice { kind, ety, n, f } => format!("slice kind={} ety={} n={} f={}", kind, ety, n, b(f)),
            Op::TFill { ety, n, errat, iter, inner } => format!(
                "tfill ety={} n={} errat={} iter={} inner={}",
                ety,
                n,
                errat.map(|e| e.to_string()).unwrap_or("-".into()),
                b(iter),
                inner_to_str(inner)
            ),
            Op::PFill { kind, n, at } => format!("pfill kind={} n={} at={}", kind, n, at.map(|e| e.to_string()).unwrap_or("-".into())),
            Op::PAtw { ty, f } => format!("patw ty={} f={}", ty, b(f)),
            Op::AAlloc { sz, al } => format!("aalloc sz={} al={}", sz, al),
            Op::AFree { id } => format!("afree id={}", id),
            Op::AGrow { id, sz, al, zeroed } => format!("agrow id={} nsz={} nal={} z={}", id, sz, al, b(zeroed)),
            Op::AShrink { id, sz, al } => format!("ashrink id={} nsz={} nal={}", id, sz, al),
            Op::Write { id } => format!("write id={}", id),
            Op::Reset => "reset".into(),
            Op::Limit(l) => format!("limit v={}", l.map(|x| x.to_string()).unwrap_or("none".into())),
            Op::SendAlloc { sz, al } => format!("sendalloc sz={} al={}", sz, al),
            Op::Drop => "drop".into(),
        }
    }
    pub fn parse(line: &str) -> Option<Op> {
        let line = line.split('|').next().unwrap_or("").trim();
        let toks: Vec<&str> = line.split_whitespace().collect();
        if toks.is_empty() {
            return None;
        }
        let u = |k: &str| kv_usize(&toks, k);
        let fb = |k: &str| kv(&toks, k).map(|v| v == "1").unwrap_or(false);
        Some(match toks[0] {
            "new" => Op::New { cap: u("cap")?, f: fb("f") },
            "alloc" => Op::Alloc { sz: u("sz")?, al: u("al")?, f: fb("f") },
            "val" => Op::Val { ty: u("ty")?, f: fb("f"), with: fb("with") },
            "atw" => Op::Atw {
                ty: u("ty")?,
                ok: kv(&toks, "ret")? == "ok",
                inner: inner_from_str(kv(&toks, "inner")?),
                f: fb("f"),
            },
            "slice" => Op::Slice { kind: u("kind")? as u8, ety: u("ety")?, n: u("n")?, f: fb("f") },
            "tfill" => Op::TFill { ety: u("ety")?, n: u("n")?, errat: kv(&toks, "errat").and_then(parse_usize), iter: fb("iter"), inner: inner_from_str(kv(&toks, "inner").unwrap_or("-")) },
            "pfill" => Op::PFill { kind: u("kind")? as u8, n: u("n")?, at: kv(&toks, "at").and_then(parse_usize) },
            "patw" => Op::PAtw { ty: u("ty")?, f: fb("f") },
            "aalloc" => Op::AAlloc { sz: u("sz")?, al: u("al")? },
            "afree" => Op::AFree { id: u("id")? },
            "agrow" => Op::AGrow { id: u("id")?, sz: u("nsz")?, al: u("nal")?, zeroed: fb("z") },
            "ashrink" => Op::AShrink { id: u("id")?, sz: u("nsz")?, al: u("nal")? },
            "write" => Op::Write { id: u("id")? },
            "reset" => Op::Reset,
            "limit" => Op::Limit(kv(&toks, "v").and_then(parse_usize)),
            "sendalloc" => Op::SendAlloc { sz: u("sz")?, al: u("al")? },
            "drop" => Op::Drop,
            _ => return None,
        })
    }
}

#[derive(Clone, Debug)]
pub struct Plan {
    pub idx: usize,
    pub seed: u64,
    pub m: usize,
    pub fault: Fault,
    pub shape: bool,
    pub uniform: Option<usize>,
    pub ops: Vec<Op>,
}

pub fn fault_to_str(f: Fault) -> String {
    match f {
        Fault::None => "none".into(),
        Fault::Kth(k) => format!("kth:{}", k),
        Fault::Ge(s) => format!("ge:{}", s),
        Fault::All => "all".into(),
        Fault::From(k) => format!("from:{}", k),
    }
}
pub fn fault_from_str(s: &str) -> Fault {
    if s == "all" {
        return Fault::All;
    }
    if let Some(k) = s.strip_prefix("kth:") {
        return Fault::Kth(k.parse().unwrap_or(0));
    }
    if let Some(k) = s.strip_prefix("ge:") {
        return Fault::Ge(k.parse().unwrap_or(0));
    }
    if let Some(k) = s.strip_prefix("from:") {
        return Fault::From(k.parse().unwrap_or(0));
    }
    Fault::None
}

impl Plan {
    pub fn header(&self, static_addr: usize) -> String {
        format!(
            "PLAN idx={} seed={} M={} fault={} shape={} uniform={} static={} dbg={} ovf={}",
            self.idx,
            self.seed,
            self.m,
            fault_to_str(self.fault),
            if self.shape { 1 } else { 0 },
            self.uniform.map(|a| a.to_string()).unwrap_or("-".into()),
            hex(static_addr),
            if cfg!(debug_assertions) { 1 } else { 0 },
            if cfg!(debug_assertions) { 1 } else { 0 },
        )
    }
    pub fn parse(text: &str) -> Vec<Plan> {
        let mut plans = vec![];
        let mut cur: Option<Plan> = None;
        for line in text.lines() {
            let line = line.trim();
            if line.is_empty() || line.starts_with('#') {
                continue;
            }
            if line.starts_with("PLAN") {
                if let Some(p) = cur.take() {
                    plans.push(p);
                }
                let toks: Vec<&str> = line.split_whitespace().collect();
                cur = Some(Plan {
                    idx: kv_usize(&toks, "idx").unwrap_or(0),
                    seed: kv(&toks, "seed").and_then(|s| s.parse().ok()).unwrap_or(0),
                    m: kv_usize(&toks, "M").unwrap_or(1),
                    fault: fault_from_str(kv(&toks, "fault").unwrap_or("none")),
                    shape: kv(&toks, "shape") == Some("1"),
                    uniform: kv(&toks, "uniform").and_then(parse_usize),
                    ops: vec![],
                });
            } else if line.starts_with("END") || line.starts_with("ORACLE") {
                continue;
            } else if let (Some(p), Some(op)) = (cur.as_mut(), Op::parse(line)) {
                p.ops.push(op);
            }
        }
        if let Some(p) = cur.take() {
            plans.push(p);
        }
        plans
    }
}

// ---------------------------------------------------------------------------------------
// generator
// ---------------------------------------------------------------------------------------

pub const ISIZE_MAX: usize = isize::MAX as usize;

fn gen_align(r: &mut Rng, m: usize) -> usize {
    match r.weighted(&[50, 20, 8, 3]) {
        0 => 1 << r.below(5),                // 1..16
        1 => m,                              // exactly MIN_ALIGN
        2 => 1 << r.range(5, 12),            // 32..4096
        _ => 1 << r.range(13, 16),
    }
}

fn gen_size(r: &mut Rng, cap_left: usize, m: usize, allow_huge: bool) -> usize {
    match r.weighted(&[6, 30, 20, 14, 8, 6, 6, if allow_huge { 4 } else { 0 }]) {
        0 => 0,
        1 => r.range(1, 64) as usize,
        2 => r.range(1, 600) as usize,
        3 => {
            // around what is left in the current chunk
            let d = r.pick(&[0usize, 1, 2, m, m + 1, 16, 17]);
            if r.chance(1, 2) {
                cap_left.saturating_sub(d)
            } else {
                cap_left + d
            }
        }
        4 => {
            let base = r.pick(&[448usize, 512, 960, 1984, 4032, 4096, 8128]);
            (base as i64 + r.range(0, 4) as i64 - 2).max(0) as usize
        }
        5 => r.range(4000, 70_000) as usize,
        6 => r.range(1, 20) as usize * m.max(1),
        _ => {
            let k = r.range(0, 4096) as usize;
            match r.below(6) {
                0 => ISIZE_MAX - k,
                1 => ISIZE_MAX / 2 + k,
                2 => 1usize << r.range(29, 62),
                3 => ISIZE_MAX - (ISIZE_MAX % 4096) - k * 4096,
                4 => (1usize << 25) + k,
                _ => ISIZE_MAX,
            }
        }
    }
}

fn valid_layout(sz: usize, al: usize) -> bool {
    Layout::from_size_align(sz, al).is_ok()
}

#[derive(Clone, Copy, PartialEq, Debug)]
pub enum Profile {
    General,
    Limits,
    Resets,
    Faults,
    Init,
    AllocApi,
    Uniform,
    Capacity,
    Sizes,
    Panics,
}

pub fn profile_from_str(s: &str) -> Profile {
    match s {
        "limits" => Profile::Limits,
        "resets" => Profile::Resets,
        "faults" => Profile::Faults,
        "init" => Profile::Init,
        "allocapi" => Profile::AllocApi,
        "uniform" => Profile::Uniform,
        "capacity" => Profile::Capacity,
        "sizes" => Profile::Sizes,
        "panics" => Profile::Panics,
        _ => Profile::General,
    }
}

/// The generator needs to know roughly how much room is left, so it runs against a shadow
/// estimate supplied by the executor (`cap_left`, number of live raw blocks and their sizes).
pub struct GenCtx {
    pub cap_left: usize,
    pub held_usable: usize,
    pub live_ids: Vec<(usize, usize, usize)>, // (id, size, align) of blocks obtained via the Allocator API / alloc_layout
    pub top: Option<usize>, // index into `live_ids` of the block that starts at the bump finger (the only one grow/shrink handle in place)
    pub n_ops: usize,
    pub has_bump: bool,
    pub last_failed_init: Option<(usize, usize)>,
}

pub fn gen_first(r: &mut Rng, prof: Profile) -> Op {
    let cap = match prof {
        Profile::Capacity => r.pick(&[1usize, 7, 16, 64, 100, 448, 449, 1000, 4032, 4033, 5000, 65536, 100_000]),
        Profile::Sizes => {
            if r.chance(1, 2) {
                gen_size(r, 0, 1, true)
            } else {
                r.pick(&[0usize, 1, 448, ISIZE_MAX, ISIZE_MAX - 15, ISIZE_MAX - 63, ISIZE_MAX - 64, usize::MAX, usize::MAX - 63, 1 << 40])
            }
        }
        _ => match r.weighted(&[40, 10, 10, 10, 10, 3]) {
            0 => 0,
            1 => r.range(1, 64) as usize,
            2 => r.pick(&[448usize, 449, 512, 960, 1000, 4032, 4033]),
            3 => r.range(65, 5000) as usize,
            4 => r.range(5000, 200_000) as usize,
            _ => gen_size(r, 0, 1, true),
        },
    };
    Op::New { cap, f: r.chance(1, 2) }
}

pub fn gen_op(r: &mut Rng, prof: Profile, m: usize, uniform: Option<usize>, c: &GenCtx) -> Op {
    if let Some((sz, al)) = c.last_failed_init {
        // follow a failed initializer with a request of the same layout most of the time
        if r.chance(2, 3) {
            return Op::Alloc { sz, al, f: r.chance(1, 2) };
        }
    }
    if let Some(a) = uniform {
        // uniform plans: same alignment everywhere, sizes multiples of it
        let sz = a * r.pick(&[1usize, 1, 2, 3, 5, 8, 13, 40, 100, 300]);
        return match r.weighted(&[50, 10, 12, 10, 6, 6, 3]) {
            0 => Op::Alloc { sz, al: a, f: r.chance(1, 3) },
            1 => {
                let ty = uniform_ty(a, r);
                Op::Val { ty, f: r.chance(1, 3), with: r.chance(1, 2) }
            }
            2 if a >= 8 => {
                let ty = if a == 8 { 10 } else { 12 };
                Op::Atw { ty, ok: r.chance(1, 2), inner: vec![], f: r.chance(1, 2) }
            }
            2 => Op::Alloc { sz, al: a, f: r.chance(1, 3) },
            3 => {
                let ety = uniform_ety(a);
                let n = r.range(0, 40) as usize;
                Op::TFill { ety, n, errat: if r.chance(1, 2) && n > 0 { Some(r.below(n as u64) as usize) } else { None }, iter: r.chance(1, 2), inner: vec![] }
            }
            4 => Op::Slice { kind: r.pick(&[0u8, 1, 3, 4, 5, 6, 7]), ety: uniform_ety(a), n: r.range(0, 60) as usize, f: r.chance(1, 3) },
            5 => Op::Reset,
            _ => Op::Limit(if r.chance(1, 2) { None } else { Some(c.held_usable + r.range(0, 5000) as usize) }),
        };
    }
    if prof == Profile::Panics && r.chance(1, 2) {
        return if r.chance(2, 3) {
            let n = r.pick(&[0usize, 1, 2, 5, 17, 60, 400]);
            let at = if n > 0 && r.chance(2, 3) { Some(r.below(n as u64) as usize) } else { None };
            let kind = r.below(4) as u8;
            Op::PFill { kind, n, at: if kind == 2 { None } else { at } }
        } else {
            Op::PAtw { ty: r.below(types::N_TYPES as u64) as usize, f: r.chance(1, 2) }
        };
    }
    let w: [u32; 14] = match prof {
        //                 alloc val atw slice tfill aalloc afree agrow ashrink write reset limit send  (13 = unused)
        Profile::General => [30, 10, 8, 10, 6, 8, 5, 6, 5, 3, 3, 4, 1, 0],
        Profile::Limits => [40, 5, 3, 5, 2, 4, 2, 4, 1, 0, 6, 28, 0, 0],
        Profile::Resets => [35, 6, 4, 6, 3, 4, 2, 3, 2, 2, 25, 6, 2, 0],
        Profile::Faults => [40, 8, 6, 8, 5, 6, 2, 8, 3, 0, 5, 8, 1, 0],
        Profile::Init => [15, 4, 40, 4, 25, 2, 1, 1, 1, 1, 3, 3, 0, 0],
        Profile::AllocApi => [8, 2, 1, 2, 1, 22, 14, 22, 16, 5, 3, 3, 1, 0],
        Profile::Capacity => [60, 10, 2, 10, 2, 4, 2, 3, 2, 0, 4, 1, 0, 0],
        Profile::Sizes => [40, 2, 2, 25, 8, 10, 0, 8, 2, 0, 1, 2, 0, 0],
        Profile::Panics => [30, 8, 6, 8, 5, 6, 4, 5, 4, 2, 10, 3, 1, 0],
        Profile::Uniform => unreachable!(),
    };
    let huge = matches!(prof, Profile::Sizes | Profile::Faults | Profile::General);
    loop {
        let k = r.weighted(&w);
        let op = match k {
            0 => {
                let al = gen_align(r, m);
                let sz = gen_size(r, c.cap_left, m, huge);
                Op::Alloc { sz, al, f: r.chance(1, 2) }
            }
            1 => Op::Val { ty: r.below(types::N_TYPES as u64) as usize, f: r.chance(1, 2), with: r.chance(1, 2) },
            2 => {
                let mut inner = vec![];
                if r.chance(1, 2) {
                    for _ in 0..r.range(1, 3) {
                        let s = r.pick(&[0usize, 1, 8, 24, 100, 500, 3000]);
                        let a = 1 << r.below(6);
                        inner.push(if r.chance(1, 2) { Inner::Keep(s, a) } else { Inner::Release(s, a) });
                    }
                }
                Op::Atw { ty: r.below(types::N_TYPES as u64) as usize, ok: r.chance(2, 5), inner, f: r.chance(1, 2) }
            }
            3 => {
                let kind = r.below(8) as u8;
                let ety = r.below(N_ETYPES as u64) as usize;
                let n = gen_count(r, ety, c.cap_left, prof == Profile::Sizes);
                Op::Slice { kind, ety, n, f: r.chance(1, 2) }
            }
            4 => {
                let ety = r.below(N_ETYPES as u64) as usize;
                let n = gen_count(r, ety, c.cap_left, false).min(100_000);
                let errat = if n > 0 && r.chance(3, 5) { Some(r.below(n.min(64) as u64) as usize) } else { None };
                // a third of the time the fill closure itself allocates from the arena (and keeps or releases the block)
                let mut inner = vec![];
                if n > 0 && r.chance(1, 3) {
                    let k = 1 + r.below(2);
                    for _ in 0..k {
                        let a = 1usize << r.below(4);
                        let sz = r.range(1, 40) as usize;
                        inner.push(if r.chance(2, 3) { Inner::Keep(sz, a) } else { Inner::Release(sz, a) });
                    }
                }
                Op::TFill { ety, n, errat, iter: r.chance(1, 2), inner }
            }
            5 => {
                let al = gen_align(r, m);
                let sz = gen_size(r, c.cap_left, m, huge);
                Op::AAlloc { sz, al }
            }
            6 | 7 | 8 | 9 => {
                if c.live_ids.is_empty() {
                    continue;
                }
                // prefer the most recent block (the only one that can be handled in place)
                let mut i = if r.chance(3, 5) { c.live_ids.len() - 1 } else { r.below(c.live_ids.len() as u64) as usize };
                if let Some(t) = c.top {
                    if (k == 7 || k == 8) && r.chance(1, 2) {
                        i = t;
                    }
                }
                let (id, osz, oal) = c.live_ids[i];
                match k {
                    6 => Op::AFree { id },
                    7 => {
                        let nal = if r.chance(2, 3) { oal } else { gen_align(r, m) };
                        let nsz = osz
                            + match r.below(5) {
                                0 => 0,
                                1 => r.range(1, 16) as usize,
                                2 => r.range(1, 700) as usize,
                                3 => c.cap_left.saturating_sub(r.below(3) as usize),
                                _ => if huge && r.chance(1, 6) { ISIZE_MAX / 2 } else { r.range(1, 9000) as usize },
                            };
                        Op::AGrow { id, sz: nsz, al: nal, zeroed: r.chance(1, 3) }
                    }
                    8 => {
                        let nal = if r.chance(2, 3) { oal } else { gen_align(r, m) };
                        let nsz = match r.below(4) {
                            0 => osz,
                            1 => osz / 2,
                            2 => r.below(osz as u64 + 1) as usize,
                            _ => osz.saturating_sub(r.range(0, 3) as usize),
                        };
                        Op::AShrink { id, sz: nsz, al: nal }
                    }
                    _ => Op::Write { id },
                }
            }
            10 => Op::Reset,
            11 => {
                let h = c.held_usable;
                let v = match r.below(9) {
                    0 => None,
                    1 => Some(0),
                    2 => Some(h.saturating_sub(r.range(1, 100) as usize)),
                    3 => Some(h),
                    4 => Some(h + r.range(1, 70) as usize),
                    5 => Some(h + r.pick(&[64usize, 192, 448, 449, 960, 1984, 4032])),
                    6 => Some(r.range(1, 447) as usize),
                    7 => Some(h * 2 + r.range(0, 5000) as usize),
                    _ => Some(1 << 40),
                };
                Op::Limit(v)
            }
            _ => Op::SendAlloc { sz: r.range(0, 100) as usize, al: 1 << r.below(5) },
        };
        // validity of layouts (caller obligations of the API)
        let ok = match &op {
            Op::Alloc { sz, al, .. } | Op::AAlloc { sz, al } | Op::SendAlloc { sz, al } => valid_layout(*sz, *al),
            Op::AGrow { sz, al, .. } | Op::AShrink { sz, al, .. } => valid_layout(*sz, *al),
            _ => true,
        };
        if ok {
            return op;
        }
    }
}

fn uniform_ty(a: usize, r: &mut Rng) -> usize {
    match a {
        1 => r.pick(&[1usize, 2, 3, 4]),
        2 => r.pick(&[8usize, 19]),
        4 => r.pick(&[9usize, 20]),
        8 => r.pick(&[10usize, 11, 21]),
        _ => r.pick(&[12usize, 13]),
    }
}
fn uniform_ety(a: usize) -> usize {
    match a {
        1 => 0,
        2 => 1,
        4 => 6,
        8 => 2,
        _ => 4,
    }
}

pub const N_ETYPES: usize = 8;
/// element types: (size, align)
pub fn ety_layout(ety: usize) -> (usize, usize) {
    match ety {
        0 => (1, 1),
        1 => (2, 2),
        2 => (8, 8),
        3 => (3, 1),
        4 => (16, 16),
        5 => (0, 1),
        6 => (12, 4),
        _ => (1000, 1),
    }
}
#[macro_export]
macro_rules! with_ety {
    ($idx:expr, $T:ident => $body:expr) => {{
        use $crate::types::*;
        match $idx {
            0 => { type $T = B1; $body }
            1 => { type $T = A2x2; $body }
            2 => { type $T = A8x8; $body }
            3 => { type $T = B3; $body }
            4 => { type $T = A16x16; $body }
            5 => { type $T = B0; $body }
            6 => { type $T = A4x12; $body }
            _ => { type $T = B1000; $body }
        }
    }};
}

fn gen_count(r: &mut Rng, ety: usize, cap_left: usize, overflowy: bool) -> usize {
    let (esz, _) = ety_layout(ety);
    if esz == 0 {
        return r.range(0, 300) as usize;
    }
    match r.weighted(&[5, 40, 20, 10, if overflowy { 25 } else { 2 }]) {
        0 => 0,
        1 => r.range(1, 40) as usize,
        2 => (cap_left / esz).saturating_sub(r.below(3) as usize) + r.below(3) as usize,
        3 => r.range(1, 5000) as usize / esz.max(1) + 1,
        _ => {
            let k = r.below(5) as usize;
            match r.below(6) {
                0 => (usize::MAX / esz).saturating_add(k),
                1 => (usize::MAX / esz).saturating_sub(k),
                2 => ISIZE_MAX / esz + k,
                3 => (ISIZE_MAX / esz).saturating_sub(k),
                4 => usize::MAX - k,
                _ => (1usize << 40) / esz,
            }
        }
    }
}

// ---------------------------------------------------------------------------------------
// executor + oracles
// ---------------------------------------------------------------------------------------

/// droppable element with a Default impl (for alloc_slice_fill_default); ids 1<<60.. are never reused
pub struct DefTok(pub u64);
impl Default for DefTok {
    fn default() -> Self {
        DefTok(1 << 60)
    }
}
impl Drop for DefTok {
    fn drop(&mut self) {
        let id = self.0;
        types::DROPS.with(|d| d.borrow_mut().push(id));
    }
}

/// An `ExactSizeIterator` whose `len()` under-reports: after the `claimed` items of `inner` it yields `extra` more
/// (default values).  Code that trusts `len()` for the size of a buffer must stop pulling after `len()` items.
pub struct Surplus<I: Iterator> {
    pub inner: I,
    pub claimed: usize,
    pub extra: usize,
}
impl<T: Default, I: Iterator<Item = T>> Iterator for Surplus<I> {
    type Item = T;
    fn next(&mut self) -> Option<T> {
        match self.inner.next() {
            Some(x) => {
                self.claimed = self.claimed.saturating_sub(1);
                Some(x)
            }
            None if self.extra > 0 => {
                self.extra -= 1;
                Some(T::default())
            }
            None => None,
        }
    }
    fn size_hint(&self) -> (usize, Option<usize>) {
        (self.claimed, Some(self.claimed))
    }
}
impl<T: Default, I: Iterator<Item = T>> ExactSizeIterator for Surplus<I> {}

#[derive(Clone, Debug)]
pub struct Blk {
    pub ptr: usize,
    pub size: usize,
    pub align: usize,
    pub live: bool,
    pub raw: bool, // obtained through alloc_layout / Allocator API: may be passed to afree/agrow/ashrink
    pub expected: Vec<u8>,
    pub kept_by_failed_init: bool, // allocated and kept by an initializer that then returned Err (C11)
}

pub struct Out {
    pub trace: String,
    pub oracle_fails: Vec<String>,
    pub n_ops: usize,
    pub res_kinds: std::collections::BTreeMap<String, usize>,
}

pub struct Exec<const M: usize> {
    pub bump: Option<Bump<M>>,
    pub blocks: Vec<Blk>,
    pub held: Vec<(usize, usize, usize)>, // malloc order
    pub footer_overhead: Option<usize>,
    pub plan_idx: usize,
    pub op_idx: usize,
    pub uniform: Option<usize>,
    pub out: Out,
    pub tag: u64,
    pub last_failed_init: Option<(usize, usize)>,
    pub cap_budget: Option<usize>,
    pub static_addr: usize,
    pub applied: bool,
    pub resets: usize, // number of `reset` calls so far in this plan
    pub grown_since_reset: bool, // a chunk was obtained after the last `reset`
    /// ids of droppable elements that live in arena memory: the arena must never run their destructors
    pub tok_ranges: Vec<(u64, u64)>,
    pub tok_seq: u64,
}

#[derive(Clone, Debug, PartialEq)]
pub struct Obs {
    cap: usize,
    ab: usize,
    abm: usize,
    lim: Option<usize>,
    it: Vec<(usize, usize)>,
    it_safe: Vec<(usize, usize)>,
}

fn evs_to_str(evs: &[Ev]) -> String {
    if evs.is_empty() {
        return "-".into();
    }
    evs.iter()
        .map(|e| match e {
            Ev::Malloc { size, align, addr } => {
                format!("m:{}:{}:{}", size, align, if *addr == 0 { "null".to_string() } else { hex(*addr) })
            }
            Ev::Free { addr, size, align } => format!("f:{}:{}:{}", hex(*addr), size, align),
        })
        .collect::<Vec<_>>()
        .join(",")
}

pub enum Res {
    Ok(usize),
    OkInner(usize, Vec<usize>),
    Unit,
    Err,
    InitErr(Vec<usize>),
    Panic,
    /// user code panicked after the arena had reserved the space
    ClosurePanic,
}
impl Res {
    fn text(&self) -> String {
        let inn = |v: &Vec<usize>| {
            if v.is_empty() {
                "-".to_string()
            } else {
                v.iter().map(|a| hex(*a)).collect::<Vec<_>>().join(",")
            }
        };
        match self {
            Res::Ok(a) => format!("ok {}", hex(*a)),
            Res::OkInner(a, v) => format!("ok {} in={}", hex(*a), inn(v)),
            Res::Unit => "unit".into(),
            Res::Err => "err".into(),
            Res::InitErr(v) => format!("ierr in={}", inn(v)),
            Res::Panic => "panic".into(),
            Res::ClosurePanic => "cpanic".into(),
        }
    }
    fn kind(&self) -> &'static str {
        match self {
            Res::Ok(_) | Res::OkInner(..) => "ok",
            Res::Unit => "unit",
            Res::Err => "err",
            Res::InitErr(_) => "ierr",
            Res::Panic => "panic",
            Res::ClosurePanic => "cpanic",
        }
    }
}

impl<const M: usize> Exec<M> {
    pub fn new(plan: &Plan, static_addr: usize, footer_overhead: usize) -> Self {
        Exec {
            bump: None,
            blocks: vec![],
            held: vec![],
            footer_overhead: Some(footer_overhead),
            plan_idx: plan.idx,
            op_idx: 0,
            uniform: plan.uniform,
            out: Out { trace: String::new(), oracle_fails: vec![], n_ops: 0, res_kinds: Default::default() },
            tag: plan.seed.wrapping_mul(1000),
            last_failed_init: None,
            cap_budget: None,
            static_addr,
            applied: false,
            resets: 0,
            grown_since_reset: false,
            tok_ranges: vec![],
            tok_seq: 0,
        }
    }

    fn fail(&mut self, prop: &str, name: &str, detail: String) {
        let s = format!("ORACLE {} {} plan={} op={} {}", prop, name, self.plan_idx, self.op_idx, detail);
        self.out.oracle_fails.push(s);
    }

    fn next_tag(&mut self) -> u64 {
        self.tag += 1;
        self.tag
    }

    pub fn gen_ctx(&self) -> GenCtx {
        let (cap_left, held_usable) = match &self.bump {
            Some(b) => (b.chunk_capacity(), b.allocated_bytes()),
            None => (0, 0),
        };
        let finger = self.bump.as_ref().and_then(|b| unsafe { b.iter_allocated_chunks_raw().next() }).map(|(p, _)| p as usize);
        let live_ids: Vec<(usize, usize, usize)> =
            self.blocks.iter().enumerate().filter(|(_, b)| b.live && b.raw).map(|(i, b)| (i, b.size, b.align)).collect();
        let top = live_ids.iter().position(|(i, _, _)| Some(self.blocks[*i].ptr) == finger);
        GenCtx {
            cap_left,
            held_usable,
            live_ids,
            top,
            n_ops: self.op_idx,
            has_bump: self.bump.is_some(),
            last_failed_init: self.last_failed_init,
        }
    }

    fn observe(&mut self) -> Option<Obs> {
        let b = self.bump.as_mut()?;
        let it: Vec<(usize, usize)> = unsafe { b.iter_allocated_chunks_raw().map(|(p, l)| (p as usize, l)).collect() };
        let it_safe: Vec<(usize, usize)> = b.iter_allocated_chunks().map(|s| (s.as_ptr() as usize, s.len())).collect();
        Some(Obs {
            cap: b.chunk_capacity(),
            ab: b.allocated_bytes(),
            abm: b.allocated_bytes_including_metadata(),
            lim: b.allocation_limit(),
            it,
            it_safe,
        })
    }

    fn obs_text(&self, o: &Option<Obs>) -> String {
        match o {
            None => "none".into(),
            Some(o) => {
                // chunks reconstructed from the allocator ledger + iteration: data:size:align:ptr newest first
                let mut chunks = vec![];
                for (p, l) in &o.it {
                    let end = p + l;
                    // the held block whose end is footer + overhead
                    let m = self.held.iter().find(|(a, s, _)| *a <= *p && end <= a + s);
                    match m {
                        Some((a, s, al)) => chunks.push(format!("{}:{}:{}:{}", hex(*a), s, al, hex(*p))),
                        None => chunks.push(format!("?:0:0:{}", hex(*p))),
                    }
                }
                format!(
                    "cap={} ab={} abm={} lim={} chunks={} it={}",
                    o.cap,
                    o.ab,
                    o.abm,
                    o.lim.map(|x| x.to_string()).unwrap_or("none".into()),
                    if chunks.is_empty() { "-".to_string() } else { chunks.join(",") },
                    if o.it.is_empty() {
                        "-".to_string()
                    } else {
                        o.it.iter().map(|(p, l)| format!("{}:{}", hex(*p), l)).collect::<Vec<_>>().join(",")
                    }
                )
            }
        }
    }

    /// register a fresh block and run the C01/C04 placement oracles on it
    /// The whole `NonNull<[u8]>` an `Allocator` method returned (it may be longer than what was asked for) is memory the caller now
    /// owns: inside a held chunk, outside its bookkeeping, and disjoint from every other live block (`skip`: a block that is live
    /// in the harness's books only because the call that just replaced it has not been booked yet).
    fn check_extent(&mut self, ptr: usize, len: usize, skip: usize) {
        if len == 0 {
            return;
        }
        let ov = self.footer_overhead.unwrap_or(0);
        let inside = self.held.iter().any(|(a, s, _)| *a <= ptr && ptr + len <= a + s - ov.min(*s));
        if !inside {
            self.fail("C12", "returned-slice-outside-arena", format!("ptr={} len={} held={:?}", hex(ptr), len, self.held));
            self.fail("C01", "out-of-bounds", format!("ptr={} size={} (the slice an Allocator method returned)", hex(ptr), len));
        }
        for (i, b) in self.blocks.iter().enumerate() {
            if i != skip && b.live && b.size > 0 && ptr < b.ptr + b.size && b.ptr < ptr + len {
                let d = format!("returned={}+{} live#{}={}+{}", hex(ptr), len, i, hex(b.ptr), b.size);
                self.fail("C12", "returned-slice-overlaps-live-block", d.clone());
                self.fail("C01", "overlap", d);
                break;
            }
        }
    }

    fn add_block(&mut self, ptr: usize, size: usize, align: usize, raw: bool, expected: Vec<u8>) -> usize {
        if ptr == 0 {
            self.fail("C01", "null-pointer", format!("size={} align={}", size, align));
        }
        if align != 0 && ptr % align != 0 {
            self.fail("C04", "misaligned-requested", format!("ptr={} align={}", hex(ptr), align));
            if raw {
                // Allocator contract: the returned block fits the layout that was asked for
                self.fail("C12", "block-does-not-fit-layout", format!("ptr={} align={} size={}", hex(ptr), align, size));
            }
        }
        if ptr % M != 0 {
            self.fail("C04", "misaligned-min-align", format!("ptr={} M={}", hex(ptr), M));
        }
        // inside a held chunk, outside its bookkeeping
        let ov = self.footer_overhead.unwrap_or(0);
        let inside = self.held.iter().any(|(a, s, _)| *a <= ptr && ptr + size <= a + s - ov.min(*s));
        if size > 0 && !inside {
            self.fail("C01", "out-of-bounds", format!("ptr={} size={} held={:?}", hex(ptr), size, self.held));
        }
        if size > 0 {
            for (i, b) in self.blocks.iter().enumerate() {
                if b.live && b.size > 0 && ptr < b.ptr + b.size && b.ptr < ptr + size {
                    let d = format!("new={}+{} old#{}={}+{}", hex(ptr), size, i, hex(b.ptr), b.size);
                    if b.kept_by_failed_init {
                        self.fail("C11", "kept-block-reused-after-failed-init", d.clone());
                    }
                    self.fail("C01", "overlap", d);
                    break;
                }
            }
        }
        self.blocks.push(Blk { ptr, size, align, live: true, raw, expected, kept_by_failed_init: false });
        self.blocks.len() - 1
    }

    fn fill_block(&mut self, id: usize) {
        let tag = self.next_tag();
        let b = &mut self.blocks[id];
        b.expected = pattern(tag, b.size);
        if b.size > 0 {
            unsafe { std::ptr::copy_nonoverlapping(b.expected.as_ptr(), b.ptr as *mut u8, b.size) };
        }
    }

    fn check_canaries(&mut self) {
        let mut bad = vec![];
        for (i, b) in self.blocks.iter().enumerate() {
            if b.live && b.size > 0 {
                let cur = unsafe { std::slice::from_raw_parts(b.ptr as *const u8, b.size) };
                if cur != &b.expected[..] {
                    let off = cur.iter().zip(b.expected.iter()).position(|(x, y)| x != y).unwrap_or(0);
                    bad.push(format!("block#{}={}+{} first-diff-at={}", i, hex(b.ptr), b.size, off));
                }
            }
        }
        for d in bad {
            self.fail("C02", "contents-changed", d);
        }
    }

    /// ledger oracle (C03), limit oracle (C07); returns nothing, updates `held`
    fn apply_events(&mut self, evs: &[Ev], op: &Op, lim_before: Option<usize>) {
        if self.applied {
            return;
        }
        self.applied = true;
        let mut refused_seen = false;
        for e in evs {
            match *e {
                Ev::Malloc { size, align, addr } => {
                    if addr == 0 {
                        refused_seen = true;
                    }
                    if addr != 0 {
                        // C18: with no limit and no refusal, a new chunk is at least twice the previous one
                        if lim_before.is_none() && !refused_seen && !matches!(op, Op::New { .. }) {
                            if let Some((_, ps, _)) = self.held.last() {
                                let ov = self.footer_overhead.unwrap_or(48);
                                if size.saturating_sub(ov) < 2 * ps.saturating_sub(ov) {
                                    self.fail("C18", "chunk-growth-not-geometric", format!("previous chunk {} bytes, new chunk {} bytes", ps, size));
                                }
                            }
                        }
                        if let Some(l) = lim_before {
                            let ov = self.footer_overhead.unwrap_or(48);
                            let before: usize = self.held.iter().map(|(_, s, _)| s.saturating_sub(ov)).sum();
                            if before + (size - ov.min(size)) > l {
                                self.fail("C07", "limit-exceeded", format!("limit={} held-usable-before={} new-chunk={}", l, before, size));
                                if self.resets > 0 && !self.grown_since_reset {
                                    // C06: the arena keeps its limit across a reset (a limit that is still reported but is not
                                    // enforced for the first growth after the reset has not been kept)
                                    self.fail("C06", "limit-not-kept-after-reset", format!("limit={} held-usable-before={} new-chunk={} resets={}", l, before, size, self.resets));
                                }
                            }
                        }
                        if self.held.iter().any(|(a, s, _)| addr < a + s && *a < addr + size) {
                            self.fail("C03", "allocator-returned-overlap", format!("addr={}", hex(addr)));
                        }
                        self.held.push((addr, size, align));
                        self.grown_since_reset = true;
                    }
                }
                Ev::Free { addr, size, align } => {
                    if !matches!(op, Op::Reset | Op::Drop) {
                        self.fail("C03", "free-outside-reset-or-drop", format!("op={} addr={}", op.to_text(), hex(addr)));
                    }
                    if addr == self.static_addr {
                        self.fail("C03", "freed-static", format!("addr={}", hex(addr)));
                    }
                    match self.held.iter().position(|(a, _, _)| *a == addr) {
                        None => self.fail("C03", "foreign-or-double-free", format!("addr={} size={} align={}", hex(addr), size, align)),
                        Some(i) => {
                            let (_, s, al) = self.held[i];
                            if s != size || al != align {
                                self.fail("C03", "free-layout-mismatch", format!("addr={} malloc=({},{}) free=({},{})", hex(addr), s, al, size, align));
                            }
                            self.held.remove(i);
                        }
                    }
                }
            }
        }
    }

    fn check_state(&mut self, op: &Op, obs_before: &Option<Obs>, obs: &Option<Obs>, evs: &[Ev], res: &Res, held_before: &[(usize, usize, usize)]) {
        let Some(o) = obs else { return };
        // C10: both iterators agree
        if o.it != o.it_safe {
            self.fail("C10", "iterators-differ", format!("raw={:?} safe={:?}", o.it, o.it_safe));
        }
        // C08 accounting
        let total: usize = self.held.iter().map(|(_, s, _)| *s).sum();
        if o.abm != total {
            self.fail("C08", "bytes-including-metadata", format!("reported={} held={} chunks={}", o.abm, total, self.held.len()));
        }
        if !self.held.is_empty() {
            let ov = (o.abm - o.ab.min(o.abm)) / self.held.len();
            let exact = (o.abm - o.ab.min(o.abm)) % self.held.len() == 0;
            match self.footer_overhead {
                None if exact && o.abm == total => self.footer_overhead = Some(ov),
                Some(f) if exact && f == ov => {}
                None => {}
                Some(f) => self.fail("C08", "allocated-bytes", format!("ab={} abm={} chunks={} overhead-was={}", o.ab, o.abm, self.held.len(), f)),
            }
        } else if o.ab != 0 || o.abm != 0 {
            self.fail("C08", "nonzero-when-empty", format!("ab={} abm={}", o.ab, o.abm));
        }
        if let Some(ob) = obs_before {
            let acquired = evs.iter().any(|e| matches!(e, Ev::Malloc { addr, .. } if *addr != 0) || matches!(e, Ev::Free { .. }));
            if !acquired && (ob.ab != o.ab || ob.abm != o.abm) {
                self.fail("C08", "changed-without-chunk-traffic", format!("ab {}->{} abm {}->{}", ob.ab, o.ab, ob.abm, o.abm));
            }
        }
        // C10 structure: one slice per held chunk, newest first, inside it
        if o.it.len() != self.held.len() {
            self.fail("C10", "slice-count", format!("slices={} held={}", o.it.len(), self.held.len()));
        } else {
            let ov = self.footer_overhead.unwrap_or(0);
            for (k, (p, l)) in o.it.iter().enumerate() {
                let (a, s, _) = self.held[self.held.len() - 1 - k];
                if !(a <= *p && p + l <= a + s - ov) {
                    self.fail("C10", "slice-outside-chunk-or-order", format!("slice#{}={}+{} chunk={}+{}", k, hex(*p), l, hex(a), s));
                }
            }
            // containment of live blocks
            let mut uncovered = vec![];
            for (i, b) in self.blocks.iter().enumerate() {
                if b.live && b.size > 0 {
                    let n = o.it.iter().filter(|(p, l)| *p <= b.ptr && b.ptr + b.size <= p + l).count();
                    if n != 1 {
                        uncovered.push(format!("block#{}={}+{} in {} slices", i, hex(b.ptr), b.size, n));
                    }
                }
            }
            for d in uncovered.into_iter().take(2) {
                self.fail("C10", "live-block-not-covered-once", d);
            }
            // exact tiling for uniform plans
            if self.uniform.is_some() {
                for (p, l) in &o.it {
                    let mut bs: Vec<(usize, usize)> = self
                        .blocks
                        .iter()
                        .filter(|b| b.live && b.size > 0 && *p <= b.ptr && b.ptr < p + l)
                        .map(|b| (b.ptr, b.size))
                        .collect();
                    bs.sort();
                    let mut cur = *p;
                    let mut okk = true;
                    for (bp, bsz) in &bs {
                        if *bp != cur {
                            okk = false;
                            break;
                        }
                        cur += bsz;
                    }
                    if cur != p + l {
                        okk = false;
                    }
                    if !okk {
                        self.fail("C10", "uniform-tiling", format!("slice={}+{} blocks={:?}", hex(*p), l, bs.iter().map(|(a, b)| format!("{}+{}", hex(*a), b)).collect::<Vec<_>>()));
                        break;
                    }
                }
            }
        }
        // C18: chunk_capacity never overstates / C06,C11,C18 "fits ⇒ no malloc" handled at call sites
        let _ = (op, res, held_before);
    }

    pub fn run_op(&mut self, op: &Op) {
        self.applied = false;
        let obs_before = self.observe();
        let held_before = self.held.clone();
        let lim_before = obs_before.as_ref().and_then(|o| o.lim);
        let mut extra = String::new();
        let fallible = match op {
            Op::New { f, .. } | Op::Alloc { f, .. } | Op::Val { f, .. } | Op::Atw { f, .. } | Op::Slice { f, .. } => *f,
            Op::AAlloc { .. } | Op::AGrow { .. } | Op::AShrink { .. } => true,
            _ => false,
        };
        // expectations computed before the call
        let cap_before = obs_before.as_ref().map(|o| o.cap).unwrap_or(0);
        let mut expect_no_malloc: Option<(&'static str, &'static str)> = None;
        // nothing obtained from the global allocator since the last `reset`: the retained block is still all the arena has
        let fresh_after_reset = self.resets > 0 && !self.grown_since_reset;
        let req_layout: Option<(usize, usize)> = match op {
            Op::Alloc { sz, al, .. } | Op::AAlloc { sz, al } | Op::SendAlloc { sz, al } => Some((*sz, *al)),
            Op::Val { ty, .. } => Some(with_ty!(*ty, T => (std::mem::size_of::<T>(), std::mem::align_of::<T>()))),
            _ => None,
        };
        if let (Some((sz, al)), true) = (req_layout, self.bump.is_some()) {
            if al <= M && sz.checked_add(M - 1).map(|x| x / M * M <= cap_before).unwrap_or(false) {
                expect_no_malloc = Some(("C18", "fits-but-malloc"));
            }
        }
        if let (Op::AGrow { sz, al, .. }, true) = (op, self.bump.is_some()) {
            // growing needs at most a fresh block of the new size (plus alignment padding): when that fits what is left of the
            // current chunk, the global allocator must not be asked
            // (for alignments up to MIN_ALIGN only: an over-aligned request is rounded up to its alignment by the fast path, which
            // may legitimately decline what an exact fit computation would accept)
            if *al <= M && sz.checked_add(M - 1).map(|x| x / M * M <= cap_before).unwrap_or(false) {
                expect_no_malloc = Some(("C18", "fits-but-malloc"));
            }
        }
        if let (Some((sz, al)), true) = (req_layout, self.bump.is_some()) {
            if let Some((lsz, lal)) = self.last_failed_init {
                if (lsz, lal) == (sz, al) {
                    expect_no_malloc = Some(("C11", "residue-after-failed-init"));
                }
            }
            if let Some(b) = self.cap_budget {
                if al <= M && sz % M == 0 && sz <= b {
                    expect_no_malloc = Some(("C18", "capacity-not-honoured"));
                    self.cap_budget = Some(b - sz);
                } else {
                    self.cap_budget = None;
                }
            }
        } else if !matches!(op, Op::New { .. }) {
            self.cap_budget = None;
        }
        let prev_failed_init = self.last_failed_init.take();
        let _ = prev_failed_init;

        let (res, evs): (Res, Vec<Ev>) = match op {
            Op::New { cap, f } => {
                if let Some(b) = self.bump.take() {
                    drop(b);
                }
                self.blocks.iter_mut().for_each(|b| b.live = false);
                self.held.clear();
                let alt = self.blocks.len() % 2 == 1;
                let (r, evs) = galloc::record(|| {
                    catch_unwind(AssertUnwindSafe(|| {
                        if let Some(r) = ctor_plain::<M>(*cap, *f, alt) {
                            r
                        } else if *f {
                            Bump::<M>::try_with_min_align_and_capacity(*cap).map_err(|_| ())
                        } else if *cap == 0 {
                            Ok(Bump::<M>::with_min_align())
                        } else {
                            Ok(Bump::<M>::with_min_align_and_capacity(*cap))
                        }
                    }))
                });
                match r {
                    Ok(Ok(b)) => {
                        self.bump = Some(b);
                        self.cap_budget = Some(*cap);
                        (Res::Unit, evs)
                    }
                    Ok(Err(())) => (Res::Err, evs),
                    Err(_) => (Res::Panic, evs),
                }
            }
            _ if self.bump.is_none() => return, // ops before a successful constructor are skipped
            Op::Alloc { sz, al, f } => {
                let lay = Layout::from_size_align(*sz, *al).unwrap();
                let b = self.bump.as_ref().unwrap();
                let (r, evs) = galloc::record(|| {
                    catch_unwind(AssertUnwindSafe(|| if *f { b.try_alloc_layout(lay).map_err(|_| ()) } else { Ok(b.alloc_layout(lay)) }))
                });
                match r {
                    Ok(Ok(p)) => {
                        self.apply_events(&evs, op, lim_before);
                        let id = self.add_block(p.as_ptr() as usize, *sz, *al, true, vec![]);
                        self.fill_block(id);
                        write!(extra, " id={}", id).ok();
                        (Res::Ok(p.as_ptr() as usize), evs)
                    }
                    Ok(Err(())) => (Res::Err, evs),
                    Err(_) => (Res::Panic, evs),
                }
            }
            Op::SendAlloc { sz, al } => {
                // hand the idle arena to another thread, allocate there, hand it back
                let lay = Layout::from_size_align(*sz, *al).unwrap();
                let b = self.bump.take().unwrap();
                let (b, r, evs) = std::thread::spawn(move || {
                    let (r, evs) = galloc::record(|| catch_unwind(AssertUnwindSafe(|| b.try_alloc_layout(lay).map(|p| p.as_ptr() as usize).map_err(|_| ()))));
                    (b, r, evs)
                })
                .join()
                .unwrap();
                self.bump = Some(b);
                match r {
                    Ok(Ok(p)) => {
                        self.apply_events(&evs, op, lim_before);
                        let id = self.add_block(p, *sz, *al, true, vec![]);
                        self.fill_block(id);
                        write!(extra, " id={}", id).ok();
                        (Res::Ok(p), evs)
                    }
                    Ok(Err(())) => (Res::Err, evs),
                    Err(_) => (Res::Panic, evs),
                }
            }
            Op::Val { ty, f, with } => {
                let tag = self.next_tag();
                let b = self.bump.as_ref().unwrap();
                let (r, evs, sz, al, pat, calls) = with_ty!(*ty, T => {
                    let sz = std::mem::size_of::<T>();
                    let al = std::mem::align_of::<T>();
                    let pat = pattern(tag, sz);
                    let v: T = mk::<T>(&pat);
                    let calls = std::cell::Cell::new(0usize);
                    let (r, evs) = galloc::record(|| catch_unwind(AssertUnwindSafe(|| {
                        match (*f, *with) {
                            (false, false) => Ok(b.alloc(v) as *mut T as usize),
                            (false, true) => Ok(b.alloc_with(|| { calls.set(calls.get()+1); v }) as *mut T as usize),
                            (true, false) => b.try_alloc(v).map(|p| p as *mut T as usize).map_err(|_| ()),
                            (true, true) => b.try_alloc_with(|| { calls.set(calls.get()+1); v }).map(|p| p as *mut T as usize).map_err(|_| ()),
                        }
                    })));
                    (r, evs, sz, al, pat, calls.get())
                });
                write!(extra, " sz={} al={}", sz, al).ok();
                match r {
                    Ok(Ok(p)) => {
                        self.apply_events(&evs, op, lim_before);
                        if *with && calls != 1 {
                            self.fail("C02", "initializer-call-count", format!("calls={}", calls));
                        }
                        let id = self.add_block(p, sz, al, false, pat);
                        write!(extra, " id={}", id).ok();
                        (Res::Ok(p), evs)
                    }
                    Ok(Err(())) => {
                        if calls != 0 {
                            self.fail("C11", "initializer-ran-without-space", format!("calls={}", calls));
                        }
                        (Res::Err, evs)
                    }
                    Err(_) => (Res::Panic, evs),
                }
            }
            Op::Atw { ty, ok, inner, f } => {
                let tag = self.next_tag();
                let tok_id = tag;
                let b = self.bump.as_ref().unwrap();
                types::clear_drops();
                // (result, events, result layout, T layout, offset of T in the slot, pattern, calls, inner pointers)
                let (r, evs, rl, tl, off, pat, calls, inner_ptrs) = with_ty!(*ty, T => {
                    let rl = Layout::new::<Result<T, Tok>>();
                    let tl = Layout::new::<T>();
                    let pat = pattern(tag, tl.size());
                    let v: T = mk::<T>(&pat);
                    // offset of the payload inside the Result slot
                    let probe: Result<T, Tok> = Ok(v);
                    let off = match &probe { Ok(t) => (t as *const T as usize) - (&probe as *const _ as usize), Err(_) => 0 };
                    std::mem::forget(probe);
                    let calls = std::cell::Cell::new(0usize);
                    let inner_ptrs = std::cell::RefCell::new(Vec::<usize>::with_capacity(8));
                    let init = || -> Result<T, Tok> {
                        calls.set(calls.get() + 1);
                        for i in inner.iter() {
                            match i {
                                Inner::Keep(s, a) => {
                                    let l = Layout::from_size_align(*s, *a).unwrap();
                                    match b.try_alloc_layout(l) { Ok(p) => inner_ptrs.borrow_mut().push(p.as_ptr() as usize), Err(_) => inner_ptrs.borrow_mut().push(0) }
                                }
                                Inner::Release(s, a) => {
                                    let l = Layout::from_size_align(*s, *a).unwrap();
                                    match (&b).allocate(l) {
                                        Ok(p) => { inner_ptrs.borrow_mut().push(p.as_ptr() as *mut u8 as usize); unsafe { (&b).deallocate(p.cast(), l) } }
                                        Err(_) => inner_ptrs.borrow_mut().push(0),
                                    }
                                }
                            }
                        }
                        if *ok { Ok(v) } else { Err(Tok(tok_id)) }
                    };
                    // Outcome: Ok(Ok(ptr)) | Ok(Err(Some(tok))) init error | Ok(Err(None)) alloc error | Err panic
                    let (r, evs) = galloc::record(|| catch_unwind(AssertUnwindSafe(|| {
                        if *f {
                            match b.try_alloc_try_with(init) {
                                Ok(p) => Ok(p as *mut T as usize),
                                Err(bumpalo::AllocOrInitError::Init(e)) => Err(Some(e)),
                                Err(bumpalo::AllocOrInitError::Alloc(_)) => Err(None),
                            }
                        } else {
                            match b.alloc_try_with(init) { Ok(p) => Ok(p as *mut T as usize), Err(e) => Err(Some(e)) }
                        }
                    })));
                    let ip = inner_ptrs.borrow().clone();
                    (r, evs, rl, tl, off, pat, calls.get(), ip)
                });
                write!(extra, " sz={} al={} tsz={} tal={}", rl.size(), rl.align(), tl.size(), tl.align()).ok();
                self.apply_events(&evs, op, lim_before);
                // blocks the initializer kept
                let mut k = 0;
                let mut kept_ok = vec![];
                for i in inner.iter() {
                    if k < inner_ptrs.len() {
                        if let Inner::Keep(s, a) = i {
                            if inner_ptrs[k] != 0 {
                                kept_ok.push((inner_ptrs[k], *s, *a));
                            }
                        }
                    }
                    k += 1;
                }
                match r {
                    Ok(Ok(p)) => {
                        if calls != 1 {
                            self.fail("C11", "initializer-call-count", format!("calls={}", calls));
                        }
                        // the whole Result slot is the live block
                        let slot = p - off;
                        let mut expected = unsafe { std::slice::from_raw_parts(slot as *const u8, rl.size()).to_vec() };
                        if expected[off..off + tl.size()] != pat[..] {
                            self.fail("C02", "value-not-stored", format!("slot={}", hex(slot)));
                        }
                        expected[off..off + tl.size()].copy_from_slice(&pat);
                        let id = self.add_block(slot, rl.size(), rl.align(), false, expected);
                        write!(extra, " id={}", id).ok();
                        for (ip, s, a) in kept_ok {
                            let id = self.add_block(ip, s, a, true, vec![]);
                            self.fill_block(id);
                        }
                        (Res::OkInner(slot, inner_ptrs), evs)
                    }
                    Ok(Err(Some(tok))) => {
                        if calls != 1 {
                            self.fail("C11", "initializer-call-count", format!("calls={}", calls));
                        }
                        if tok.0 != tok_id {
                            self.fail("C11", "wrong-error-value", format!("got={} want={}", tok.0, tok_id));
                        }
                        if types::drops_of(tok_id) != 0 {
                            self.fail("C11", "error-dropped-inside-arena", format!("drops={}", types::drops_of(tok_id)));
                        }
                        drop(tok);
                        if types::drops_of(tok_id) != 1 {
                            self.fail("C11", "error-duplicated", format!("drops={}", types::drops_of(tok_id)));
                        }
                        let mut kept_ids = vec![];
                        for (ip, s, a) in kept_ok {
                            let id = self.add_block(ip, s, a, true, vec![]);
                            self.fill_block(id);
                            self.blocks[id].kept_by_failed_init = true;
                            kept_ids.push(id);
                        }
                        // C11: what the failed initializer allocated and kept is still allocated space of the arena
                        // (the rewind must not hand it back): every kept block lies inside an iterated slice
                        if !kept_ids.is_empty() {
                            if let Some(o) = self.observe() {
                                for id in kept_ids {
                                    let (bp, bs) = (self.blocks[id].ptr, self.blocks[id].size);
                                    if bs > 0 && !o.it.iter().any(|(p, l)| *p <= bp && bp + bs <= p + l) {
                                        self.fail("C11", "kept-block-released-by-rewind", format!("block={}+{} it={:?}", hex(bp), bs, o.it.iter().map(|(p, l)| format!("{}+{}", hex(*p), l)).collect::<Vec<_>>()));
                                    }
                                }
                            }
                        }
                        if inner.iter().all(|i| matches!(i, Inner::Release(..))) || inner.is_empty() {
                            // only when nothing was kept: the slot must be reusable
                            if inner.is_empty() {
                                self.last_failed_init = Some((rl.size(), rl.align()));
                            }
                        }
                        (Res::InitErr(inner_ptrs), evs)
                    }
                    Ok(Err(None)) => {
                        if calls != 0 {
                            self.fail("C11", "initializer-ran-without-space", format!("calls={}", calls));
                        }
                        (Res::Err, evs)
                    }
                    Err(_) => {
                        if calls != 0 {
                            self.fail("C11", "initializer-ran-without-space", format!("calls={}", calls));
                        }
                        (Res::Panic, evs)
                    }
                }
            }
            Op::Slice { kind, ety, n, f } => {
                let tag = self.next_tag();
                let b = self.bump.as_ref().unwrap();
                let (esz, eal) = if *kind == 2 { (1, 1) } else { ety_layout(*ety) };
                write!(extra, " esz={} eal={}", esz, eal).ok();
                // source data only materialised when it can exist
                let total = esz.checked_mul(*n);
                let materialise = total.map(|t| t <= (1 << 22)).unwrap_or(false) && *n <= (1 << 22);
                let needs_src = matches!(*kind, 0 | 1 | 2 | 7);
                if needs_src && !materialise {
                    // a source slice of that size cannot be built; nothing to run
                    self.out.trace.push_str(&format!("# skipped {}\n", op.to_text()));
                    return;
                }
                let pat = if materialise { pattern(tag, total.unwrap()) } else { vec![] };
                let calls = std::cell::RefCell::new(Vec::<usize>::with_capacity(64));
                let eety = if *kind == 2 { 0 } else { *ety };
                let (r, evs) = crate::with_ety!(eety, T => {
                    let src: Vec<T> = if needs_src { (0..*n).map(|i| mk::<T>(&pat[i*esz..])).collect() } else { vec![] };
                    let txt: String = if *kind == 2 { pat.iter().map(|b| (b'a' + b % 26) as char).collect() } else { String::new() };
                    let elem = |i: usize| -> T { if materialise { mk::<T>(&pat[i*esz..]) } else { T::default() } };
                    let one: T = if materialise && *n > 0 { mk::<T>(&pat[..]) } else { T::default() };
                    galloc::record(|| catch_unwind(AssertUnwindSafe(|| -> Result<usize, ()> {
                        let log = |i: usize| { let mut c = calls.borrow_mut(); if c.len() < 64 { c.push(i) } };
                        Ok(match (*kind, *f) {
                            (0, false) => b.alloc_slice_copy(&src).as_ptr() as usize,
                            (0, true) => b.try_alloc_slice_copy(&src).map_err(|_| ())?.as_ptr() as usize,
                            (1, false) => b.alloc_slice_clone(&src).as_ptr() as usize,
                            (1, true) => b.try_alloc_slice_clone(&src).map_err(|_| ())?.as_ptr() as usize,
                            (2, false) => b.alloc_str(&txt).as_ptr() as usize,
                            (2, true) => b.try_alloc_str(&txt).map_err(|_| ())?.as_ptr() as usize,
                            (3, false) => b.alloc_slice_fill_with(*n, |i| { log(i); elem(i) }).as_ptr() as usize,
                            (3, true) => b.try_alloc_slice_fill_with(*n, |i| { log(i); elem(i) }).map_err(|_| ())?.as_ptr() as usize,
                            (4, false) => b.alloc_slice_fill_copy(*n, one).as_ptr() as usize,
                            (4, true) => b.try_alloc_slice_fill_copy(*n, one).map_err(|_| ())?.as_ptr() as usize,
                            (5, false) => b.alloc_slice_fill_clone(*n, &one).as_ptr() as usize,
                            (5, true) => b.try_alloc_slice_fill_clone(*n, &one).map_err(|_| ())?.as_ptr() as usize,
                            (6, false) => b.alloc_slice_fill_default::<T>(*n).as_ptr() as usize,
                            (6, true) => b.try_alloc_slice_fill_default::<T>(*n).map_err(|_| ())?.as_ptr() as usize,
                            // every other time the iterator yields more items than its `len()` announces (an
                            // `ExactSizeIterator` is a safe trait): the surplus must be ignored, never written
                            (_, false) if tag % 2 == 1 => b.alloc_slice_fill_iter(Surplus { inner: src.iter().copied(), claimed: src.len(), extra: 3 }).as_ptr() as usize,
                            (_, true) if tag % 2 == 1 => b.try_alloc_slice_fill_iter(Surplus { inner: src.iter().copied(), claimed: src.len(), extra: 3 }).map_err(|_| ())?.as_ptr() as usize,
                            (_, false) => b.alloc_slice_fill_iter(src.iter().copied()).as_ptr() as usize,
                            (_, true) => b.try_alloc_slice_fill_iter(src.iter().copied()).map_err(|_| ())?.as_ptr() as usize,
                        })
                    })))
                });
                match r {
                    Ok(Ok(p)) => {
                        self.apply_events(&evs, op, lim_before);
                        let tot = total.unwrap_or(usize::MAX);
                        if total.is_none() || tot > ISIZE_MAX {
                            self.fail("C19", "impossible-size-accepted", format!("esz={} n={}", esz, n));
                            (Res::Ok(p), evs)
                        } else {
                            let expected: Vec<u8> = if !materialise {
                                // too big to build a reference copy: track the block for placement only
                                unsafe { std::slice::from_raw_parts(p as *const u8, tot).to_vec() }
                            } else {
                                match *kind {
                                    0 | 1 | 3 | 7 => pat.clone(),
                                    2 => pat.iter().map(|b| b'a' + b % 26).collect(),
                                    4 | 5 => (0..*n).flat_map(|_| pat[..esz].to_vec()).collect(),
                                    _ => vec![0u8; tot],
                                }
                            };
                            if *kind == 3 {
                                let c = calls.borrow();
                                let want: Vec<usize> = (0..(*n).min(64)).collect();
                                if *c != want {
                                    self.fail("C02", "fill-call-order", format!("calls={:?}", &c[..c.len().min(8)]));
                                }
                            }
                            let id = self.add_block(p, tot, eal, false, expected);
                            write!(extra, " id={}", id).ok();
                            (Res::Ok(p), evs)
                        }
                    }
                    Ok(Err(())) => (Res::Err, evs),
                    Err(_) => (Res::Panic, evs),
                }
            }
            Op::TFill { ety, n, errat, iter, inner } => {
                let tag = self.next_tag();
                let tok_id = tag;
                let b = self.bump.as_ref().unwrap();
                let (esz, eal) = ety_layout(*ety);
                write!(extra, " esz={} eal={}", esz, eal).ok();
                let total = esz * *n; // n is bounded by the generator
                let pat = pattern(tag, total);
                let calls = std::cell::RefCell::new(Vec::<usize>::with_capacity(128));
                let inner_ptrs = std::cell::RefCell::new(Vec::<usize>::with_capacity(8));
                types::clear_drops();
                let (r, evs) = crate::with_ety!(*ety, T => {
                    let item = |i: usize| -> Result<T, Tok> {
                        if i == 0 {
                            // the closure's own arena traffic (first call only)
                            for x in inner.iter() {
                                match x {
                                    Inner::Keep(s, a) => {
                                        let l = Layout::from_size_align(*s, *a).unwrap();
                                        match b.try_alloc_layout(l) { Ok(p) => inner_ptrs.borrow_mut().push(p.as_ptr() as usize), Err(_) => inner_ptrs.borrow_mut().push(0) }
                                    }
                                    Inner::Release(s, a) => {
                                        let l = Layout::from_size_align(*s, *a).unwrap();
                                        match (&b).allocate(l) {
                                            Ok(p) => { inner_ptrs.borrow_mut().push(p.as_ptr() as *mut u8 as usize); unsafe { (&b).deallocate(p.cast(), l) } }
                                            Err(_) => inner_ptrs.borrow_mut().push(0),
                                        }
                                    }
                                }
                            }
                        }
                        if Some(i) == *errat { Err(Tok(tok_id)) } else { Ok(mk::<T>(&pat[i*esz..])) }
                    };
                    galloc::record(|| catch_unwind(AssertUnwindSafe(|| -> Result<usize, Tok> {
                        if *iter {
                            let k = errat.map(|e| e + 1).unwrap_or(*n);
                            let _ = k;
                            let v: Vec<Result<T, Tok>> = Vec::new();
                            drop(v);
                            // ExactSizeIterator over 0..n
                            let it = (0..*n).map(|i| { let mut c = calls.borrow_mut(); if c.len() < 128 { c.push(i) }; item(i) });
                            b.alloc_slice_try_fill_iter(it).map(|s| s.as_ptr() as usize)
                        } else {
                            b.alloc_slice_try_fill_with(*n, |i| { let mut c = calls.borrow_mut(); if c.len() < 128 { c.push(i) }; item(i) }).map(|s| s.as_ptr() as usize)
                        }
                    })))
                });
                self.apply_events(&evs, op, lim_before);
                let c = calls.borrow().clone();
                match r {
                    Ok(Ok(p)) => {
                        let want: Vec<usize> = (0..(*n).min(128)).collect();
                        if c != want {
                            self.fail("C02", "fill-call-order", format!("calls={:?}", &c[..c.len().min(8)]));
                        }
                        if errat.is_some() {
                            self.fail("C11", "error-swallowed", "fill returned Ok although an element failed".into());
                        }
                        let id = self.add_block(p, total, eal, false, pat);
                        write!(extra, " id={}", id).ok();
                        let ptrs = inner_ptrs.borrow().clone();
                        for (k, x) in inner.iter().enumerate() {
                            if let (Inner::Keep(sz, a), Some(ip)) = (x, ptrs.get(k)) {
                                if *ip != 0 {
                                    let id = self.add_block(*ip, *sz, *a, true, vec![]);
                                    self.fill_block(id);
                                }
                            }
                        }
                        if inner.is_empty() { (Res::Ok(p), evs) } else { (Res::OkInner(p, ptrs), evs) }
                    }
                    Ok(Err(tok)) => {
                        let ptrs = inner_ptrs.borrow().clone();
                        let mut kept_ids = vec![];
                        for (k, x) in inner.iter().enumerate() {
                            if let (Inner::Keep(sz, a), Some(ip)) = (x, ptrs.get(k)) {
                                if *ip != 0 {
                                    let id = self.add_block(*ip, *sz, *a, true, vec![]);
                                    self.fill_block(id);
                                    self.blocks[id].kept_by_failed_init = true;
                                    kept_ids.push(id);
                                }
                            }
                        }
                        // C11 / C01: what the failing fill closure allocated and kept is still allocated space of the arena
                        if !kept_ids.is_empty() {
                            if let Some(o) = self.observe() {
                                for id in kept_ids {
                                    let (bp, bs) = (self.blocks[id].ptr, self.blocks[id].size);
                                    if bs > 0 && !o.it.iter().any(|(p, l)| *p <= bp && bp + bs <= p + l) {
                                        let d = format!("block={}+{} it={:?}", hex(bp), bs, o.it.iter().map(|(p, l)| format!("{}+{}", hex(*p), l)).collect::<Vec<_>>());
                                        self.fail("C11", "kept-block-released-by-rewind", d.clone());
                                        self.fail("C01", "live-block-in-free-space", d);
                                    }
                                }
                            }
                        }
                        let e = errat.unwrap_or(usize::MAX);
                        let want: Vec<usize> = (0..=e.min(127)).collect();
                        if c != want {
                            self.fail("C11", "fill-calls-after-error", format!("calls={:?} errat={}", &c[..c.len().min(8)], e));
                        }
                        if tok.0 != tok_id {
                            self.fail("C11", "wrong-error-value", format!("got={}", tok.0));
                        }
                        if types::drops_of(tok_id) != 0 {
                            self.fail("C11", "error-dropped-inside-arena", String::new());
                        }
                        drop(tok);
                        if types::drops_of(tok_id) != 1 {
                            self.fail("C11", "error-duplicated", String::new());
                        }
                        // Rust layouts: align divides element size, so the slot is fully reusable
                        if esz % eal == 0 && inner.is_empty() {
                            self.last_failed_init = Some((total, eal));
                        }
                        (Res::InitErr(ptrs), evs)
                    }
                    Err(_) => {
                        if !c.is_empty() {
                            self.fail("C11", "initializer-ran-without-space", format!("calls={}", c.len()));
                        }
                        (Res::Panic, evs)
                    }
                }
            }
            Op::PFill { kind, n, at } => {
                // elements with observable destructors: the arena must never run them (C15), and a
                // panic in the middle of the fill must leave the arena usable (C16)
                // ids from a range of their own (bit 59 set), 4096 apart
                self.tok_seq += 1;
                let base_id = (1u64 << 59) + self.tok_seq * 4096;
                let b = self.bump.as_ref().unwrap();
                write!(extra, " esz=8 eal=8").ok();
                types::clear_drops();
                let calls = std::cell::Cell::new(0usize);
                struct CloneTok(u64, std::rc::Rc<std::cell::Cell<(usize, Option<usize>)>>);
                impl Clone for CloneTok {
                    fn clone(&self) -> Self {
                        let (k, at) = self.1.get();
                        self.1.set((k + 1, at));
                        if Some(k) == at {
                            panic!("clone panics");
                        }
                        CloneTok(self.0 + 1 + k as u64, self.1.clone())
                    }
                }
                let (r, evs) = galloc::record(|| {
                    catch_unwind(AssertUnwindSafe(|| -> usize {
                        match *kind {
                            0 => b.alloc_slice_fill_with(*n, |i| {
                                calls.set(calls.get() + 1);
                                if Some(i) == *at {
                                    panic!("fill closure panics");
                                }
                                Tok(base_id + i as u64)
                            })
                            .as_ptr() as usize,
                            1 => b.alloc_slice_fill_iter((0..*n).map(|i| {
                                calls.set(calls.get() + 1);
                                if Some(i) == *at {
                                    panic!("iterator panics");
                                }
                                Tok(base_id + i as u64)
                            }))
                            .as_ptr() as usize,
                            2 => b.alloc_slice_fill_default::<DefTok>(*n).as_ptr() as usize,
                            _ => b.alloc_slice_fill_with(*n, |i| {
                                calls.set(calls.get() + 1);
                                if Some(i) == *at {
                                    panic!("fill closure panics");
                                }
                                Tok(base_id + i as u64)
                            })
                            .as_ptr() as usize,
                        }
                    }))
                });
                let nd = types::DROPS.with(|d| d.borrow().iter().filter(|x| **x >= base_id && **x < base_id + 4096).count());
                if nd != 0 {
                    self.fail("C15", "arena-ran-destructor", format!("{} destructors ran inside a slice fill", nd));
                }
                match r {
                    Ok(p) => {
                        self.apply_events(&evs, op, lim_before);
                        let tot = 8 * *n;
                        let expected = unsafe { std::slice::from_raw_parts(p as *const u8, tot).to_vec() };
                        let id = self.add_block(p, tot, 8, false, expected);
                        write!(extra, " id={}", id).ok();
                        self.tok_ranges.push((base_id, base_id + *n as u64));
                        (Res::Ok(p), evs)
                    }
                    Err(_) => {
                        if calls.get() > 0 {
                            // the closure ran, so the space was reserved: it stays allocated (leaked), nothing is rewound
                            self.apply_events(&evs, op, lim_before);
                            self.tok_ranges.push((base_id, base_id + *n as u64));
                            (Res::ClosurePanic, evs)
                        } else {
                            (Res::Panic, evs)
                        }
                    }
                }
            }
            Op::PAtw { ty, f } => {
                let b = self.bump.as_ref().unwrap();
                let calls = std::cell::Cell::new(0usize);
                let (r, evs, rl) = with_ty!(*ty, T => {
                    let rl = Layout::new::<Result<T, Tok>>();
                    let (r, evs) = galloc::record(|| catch_unwind(AssertUnwindSafe(|| -> Result<usize, ()> {
                        let init = || -> Result<T, Tok> { calls.set(calls.get() + 1); panic!("initializer panics") };
                        if *f {
                            match b.try_alloc_try_with(init) { Ok(p) => Ok(p as *mut T as usize), Err(_) => Err(()) }
                        } else {
                            match b.alloc_try_with(init) { Ok(p) => Ok(p as *mut T as usize), Err(_) => Err(()) }
                        }
                    })));
                    (r, evs, rl)
                });
                write!(extra, " sz={} al={}", rl.size(), rl.align()).ok();
                match r {
                    Ok(Ok(_)) => {
                        self.fail("C16", "panicking-initializer-returned", String::new());
                        (Res::Unit, evs)
                    }
                    Ok(Err(())) => {
                        if calls.get() != 0 {
                            self.fail("C11", "initializer-ran-without-space", format!("calls={}", calls.get()));
                        }
                        (Res::Err, evs)
                    }
                    Err(_) => {
                        if calls.get() > 0 {
                            self.apply_events(&evs, op, lim_before);
                            (Res::ClosurePanic, evs)
                        } else {
                            (Res::Panic, evs)
                        }
                    }
                }
            }
            Op::AAlloc { sz, al } => {
                let lay = Layout::from_size_align(*sz, *al).unwrap();
                let b = self.bump.as_ref().unwrap();
                let (r, evs) = galloc::record(|| catch_unwind(AssertUnwindSafe(|| (&b).allocate(lay).map_err(|_| ()))));
                match r {
                    Ok(Ok(p)) => {
                        self.apply_events(&evs, op, lim_before);
                        if p.len() < *sz {
                            self.fail("C12", "short-block", format!("len={} want={}", p.len(), sz));
                        }
                        self.check_extent(p.as_ptr() as *mut u8 as usize, p.len(), usize::MAX);
                        let id = self.add_block(p.as_ptr() as *mut u8 as usize, *sz, *al, true, vec![]);
                        self.fill_block(id);
                        write!(extra, " id={}", id).ok();
                        (Res::Ok(p.as_ptr() as *mut u8 as usize), evs)
                    }
                    Ok(Err(())) => (Res::Err, evs),
                    Err(_) => (Res::Panic, evs),
                }
            }
            Op::AFree { id } => {
                let Some(blk) = self.blocks.get(*id).cloned() else { return };
                if !blk.live || !blk.raw {
                    return;
                }
                let b = self.bump.as_ref().unwrap();
                let lay = Layout::from_size_align(blk.size, blk.align).unwrap();
                write!(extra, " p={} sz={} al={}", hex(blk.ptr), blk.size, blk.align).ok();
                let (r, evs) = galloc::record(|| catch_unwind(AssertUnwindSafe(|| unsafe { (&b).deallocate(NonNull::new_unchecked(blk.ptr as *mut u8), lay) })));
                self.blocks[*id].live = false;
                match r {
                    Ok(()) => (Res::Unit, evs),
                    Err(_) => (Res::Panic, evs),
                }
            }
            Op::AGrow { id, sz, al, zeroed } => {
                let Some(blk) = self.blocks.get(*id).cloned() else { return };
                if !blk.live || !blk.raw || *sz < blk.size {
                    return;
                }
                let b = self.bump.as_ref().unwrap();
                let old = Layout::from_size_align(blk.size, blk.align).unwrap();
                let new = Layout::from_size_align(*sz, *al).unwrap();
                write!(extra, " p={} osz={} oal={}", hex(blk.ptr), blk.size, blk.align).ok();
                let (r, evs) = galloc::record(|| {
                    catch_unwind(AssertUnwindSafe(|| unsafe {
                        let p = NonNull::new_unchecked(blk.ptr as *mut u8);
                        if *zeroed { (&b).grow_zeroed(p, old, new).map_err(|_| ()) } else { (&b).grow(p, old, new).map_err(|_| ()) }
                    }))
                });
                match r {
                    Ok(Ok(p)) => {
                        self.apply_events(&evs, op, lim_before);
                        let np = p.as_ptr() as *mut u8 as usize;
                        if p.len() < *sz {
                            self.fail("C12", "short-block", format!("len={} want={}", p.len(), sz));
                        }
                        self.blocks[*id].live = false;
                        self.check_extent(p.as_ptr() as *mut u8 as usize, p.len(), usize::MAX);
                        // prefix must be preserved; tail zero for grow_zeroed
                        let cur = unsafe { std::slice::from_raw_parts(np as *const u8, *sz) };
                        if cur[..blk.size] != blk.expected[..] {
                            let off = cur.iter().zip(blk.expected.iter()).position(|(x, y)| x != y).unwrap_or(0);
                            self.fail("C12", "grow-prefix-lost", format!("old={}+{} new={}+{} first-diff-at={}", hex(blk.ptr), blk.size, hex(np), sz, off));
                        }
                        if *zeroed && cur[blk.size..].iter().any(|x| *x != 0) {
                            self.fail("C12", "grow-zeroed-tail-not-zero", format!("new={}+{}", hex(np), sz));
                        }
                        let mut expected = blk.expected.clone();
                        let nid = self.add_block(np, *sz, *al, true, vec![]);
                        // caller fills the tail through its own reference
                        let tag = self.next_tag();
                        let tail = if *zeroed { vec![0u8; *sz - blk.size] } else { pattern(tag, *sz - blk.size) };
                        unsafe { std::ptr::copy_nonoverlapping(tail.as_ptr(), (np + blk.size) as *mut u8, tail.len()) };
                        expected.extend_from_slice(&tail);
                        self.blocks[nid].expected = expected;
                        write!(extra, " id={}", nid).ok();
                        (Res::Ok(np), evs)
                    }
                    Ok(Err(())) => (Res::Err, evs),
                    Err(_) => (Res::Panic, evs),
                }
            }
            Op::AShrink { id, sz, al } => {
                let Some(blk) = self.blocks.get(*id).cloned() else { return };
                if !blk.live || !blk.raw || *sz > blk.size {
                    return;
                }
                let b = self.bump.as_ref().unwrap();
                let old = Layout::from_size_align(blk.size, blk.align).unwrap();
                let new = Layout::from_size_align(*sz, *al).unwrap();
                write!(extra, " p={} osz={} oal={}", hex(blk.ptr), blk.size, blk.align).ok();
                let (r, evs) = galloc::record(|| catch_unwind(AssertUnwindSafe(|| unsafe { (&b).shrink(NonNull::new_unchecked(blk.ptr as *mut u8), old, new).map_err(|_| ()) })));
                match r {
                    Ok(Ok(p)) => {
                        self.apply_events(&evs, op, lim_before);
                        let np = p.as_ptr() as *mut u8 as usize;
                        if p.len() < *sz {
                            self.fail("C12", "short-block", format!("len={} want={}", p.len(), sz));
                        }
                        self.blocks[*id].live = false;
                        self.check_extent(p.as_ptr() as *mut u8 as usize, p.len(), usize::MAX);
                        let cur = unsafe { std::slice::from_raw_parts(np as *const u8, *sz) };
                        if cur[..] != blk.expected[..*sz] {
                            let off = cur.iter().zip(blk.expected.iter()).position(|(x, y)| x != y).unwrap_or(0);
                            self.fail("C12", "shrink-prefix-lost", format!("old={}+{} new={}+{} first-diff-at={}", hex(blk.ptr), blk.size, hex(np), sz, off));
                        }
                        let nid = self.add_block(np, *sz, *al, true, blk.expected[..*sz].to_vec());
                        write!(extra, " id={}", nid).ok();
                        (Res::Ok(np), evs)
                    }
                    Ok(Err(())) => (Res::Err, evs),
                    Err(_) => (Res::Panic, evs),
                }
            }
            Op::Write { id } => {
                let Some(blk) = self.blocks.get(*id) else { return };
                if !blk.live {
                    return;
                }
                self.fill_block(*id);
                (Res::Unit, vec![])
            }
            Op::Reset => {
                let b = self.bump.as_mut().unwrap();
                let (r, evs) = galloc::record(|| catch_unwind(AssertUnwindSafe(|| b.reset())));
                self.resets += 1;
                self.grown_since_reset = false;
                self.blocks.iter_mut().for_each(|b| b.live = false);
                self.apply_events(&evs, op, None);
                match r {
                    Ok(()) => (Res::Unit, evs),
                    Err(_) => (Res::Panic, evs),
                }
            }
            Op::Limit(v) => {
                let b = self.bump.as_ref().unwrap();
                let (r, evs) = galloc::record(|| catch_unwind(AssertUnwindSafe(|| b.set_allocation_limit(*v))));
                match r {
                    Ok(()) => (Res::Unit, evs),
                    Err(_) => (Res::Panic, evs),
                }
            }
            Op::Drop => {
                let b = self.bump.take().unwrap();
                let (r, evs) = galloc::record(|| catch_unwind(AssertUnwindSafe(move || drop(b))));
                self.blocks.iter_mut().for_each(|b| b.live = false);
                self.apply_events(&evs, op, None);
                if !self.held.is_empty() {
                    let d = format!("still-held={:?}", self.held);
                    self.fail("C03", "leak-at-drop", d);
                    self.held.clear();
                }
                match r {
                    Ok(()) => (Res::Unit, evs),
                    Err(_) => (Res::Panic, evs),
                }
            }
        };
        // events of failed / non-block-producing ops still go through the ledger
        self.apply_events(&evs, op, lim_before);
        if galloc::log_overflowed() {
            self.fail("C09", "allocator-log-overflow", "more than 8192 allocator calls in one op".into());
        }
        let obs = self.observe();

        // ---- oracles on the outcome ----
        if fallible && matches!(res, Res::Panic) {
            self.fail("C09", "fallible-panicked", op.to_text());
        }
        if matches!(res, Res::Panic) && matches!(op, Op::AFree { .. } | Op::Reset | Op::Limit(_) | Op::Drop | Op::Write { .. }) {
            self.fail("C09", "unexpected-panic", op.to_text());
        }
        if matches!(res, Res::Err | Res::Panic) && !matches!(op, Op::New { .. } | Op::Drop) {
            // failure changes nothing
            if obs_before != obs {
                self.fail("C09", "state-changed-on-failure", format!("before={} after={}", self.obs_text(&obs_before), self.obs_text(&obs)));
            }
            if held_before != self.held {
                self.fail("C09", "held-memory-changed-on-failure", format!("before={:?} after={:?}", held_before, self.held));
            }
        }
        // C19: a size that cannot be represented ends in Err (fallible) or a panic (infallible), nothing else
        let impossible = match op {
            Op::Slice { kind, ety, n, .. } if *kind >= 3 => {
                let (esz, eal) = ety_layout(*ety);
                esz.checked_mul(*n).map(|t| t > ISIZE_MAX + 1 - eal).unwrap_or(true)
            }
            Op::New { cap, .. } => *cap > ISIZE_MAX + 1 - M,
            _ => false,
        };
        // C19, "cannot be ... satisfied": the harness allocator refuses every block above galloc::HUGE, so a request of more
        // than twice that can never be served from memory the arena holds: Err from the fallible flavour, a panic from the
        // infallible one, never a pointer (which would claim memory that was not reserved)
        let unsatisfiable = match op {
            Op::Alloc { sz, .. } | Op::AAlloc { sz, .. } | Op::SendAlloc { sz, .. } | Op::AGrow { sz, .. } => *sz > 2 * galloc::HUGE,
            _ => false,
        };
        if unsatisfiable {
            let ok = if fallible { matches!(res, Res::Err) } else { matches!(res, Res::Panic) };
            if !ok {
                self.fail("C19", "unsatisfiable-size-not-refused-properly", format!("{} fallible={} res={}", op.to_text(), fallible, res.text()));
            }
        }
        if impossible {
            let ok = if fallible { matches!(res, Res::Err) } else { matches!(res, Res::Panic) };
            if !ok {
                self.fail("C19", "impossible-size-not-refused-properly", format!("{} fallible={} res={}", op.to_text(), fallible, res.text()));
            }
            if !evs.is_empty() {
                self.fail("C19", "impossible-size-reached-allocator", format!("{} evt={}", op.to_text(), evs_to_str(&evs)));
            }
        }
        if let Some((prop, name)) = expect_no_malloc {
            if evs.iter().any(|e| matches!(e, Ev::Malloc { .. })) || !matches!(res, Res::Ok(_) | Res::OkInner(..)) {
                self.fail(prop, name, format!("{} cap-before={} res={} evt={}", op.to_text(), cap_before, res.text(), evs_to_str(&evs)));
                if prop == "C18" && fresh_after_reset {
                    // C06: after a reset the arena hands out the full usable capacity of the retained block without asking the
                    // global allocator
                    self.fail("C06", "retained-capacity-not-reusable-after-reset", format!("{} cap-before={} res={} evt={}", op.to_text(), cap_before, res.text(), evs_to_str(&evs)));
                }
            }
        }
        if matches!(op, Op::Reset | Op::Drop) && !self.tok_ranges.is_empty() {
            let bad = types::DROPS.with(|d| d.borrow().iter().filter(|x| **x == (1 << 60) || self.tok_ranges.iter().any(|(a, b)| **x >= *a && **x < *b)).count());
            if bad != 0 {
                self.fail("C15", "arena-ran-destructor", format!("{} destructors of arena-resident values ran during {}", bad, op.to_text()));
            }
        }
        if let Op::Reset = op {
            if let (Some(ob), Some(o)) = (&obs_before, &obs) {
                if self.held.len() > 1 {
                    self.fail("C06", "more-than-one-chunk-after-reset", format!("held={}", self.held.len()));
                }
                if o.it.iter().any(|(_, l)| *l != 0) {
                    self.fail("C06", "iteration-nonempty-after-reset", format!("it={:?}", o.it));
                }
                if o.lim != ob.lim {
                    self.fail("C06", "limit-changed-by-reset", format!("{:?}->{:?}", ob.lim, o.lim));
                }
                if let Some((_, s, _)) = self.held.first() {
                    let ov = self.footer_overhead.unwrap_or(0);
                    if o.cap != s - ov {
                        self.fail("C06", "capacity-not-restored", format!("cap={} usable={}", o.cap, s - ov));
                    }
                    // kept chunk must be the newest one held before
                    if held_before.last() != self.held.first() {
                        self.fail("C06", "kept-wrong-chunk", format!("before={:?} after={:?}", held_before, self.held));
                    }
                } else if !held_before.is_empty() {
                    self.fail("C06", "reset-released-everything", String::new());
                }
                if held_before.is_empty() && (!evs.is_empty() || ob != o) {
                    self.fail("C06", "reset-of-empty-arena-not-noop", String::new());
                }
            }
        }
        if let Some(b) = &self.bump {
            if b.min_align() != M {
                self.fail("C06", "min-align-changed", format!("{}", b.min_align()));
            }
        }
        self.check_canaries();
        self.check_state(op, &obs_before, &obs, &evs, &res, &held_before);

        *self.out.res_kinds.entry(format!("{}:{}", op.to_text().split(' ').next().unwrap(), res.kind())).or_insert(0) += 1;
        self.out.n_ops += 1;
        let line = format!("{}{} | RES {} | EVT {} | OBS {}\n", op.to_text(), extra, res.text(), evs_to_str(&evs), self.obs_text(&obs));
        self.out.trace.push_str(&line);
        self.op_idx += 1;
    }
}

trait Pipe: Sized {
    fn pipe<R>(self, f: impl FnOnce(Self) -> R) -> R {
        f(self)
    }
}
impl<T> Pipe for T {}

/// For `MIN_ALIGN = 1` and even capacities the arena is built through the plain constructors
/// (`new`, `try_new`, `with_capacity`, `try_with_capacity`), which must be the same thing.
fn ctor_plain<const M: usize>(cap: usize, f: bool, alt: bool) -> Option<Result<Bump<M>, ()>> {
    if M != 1 || cap % 2 != 0 {
        return None;
    }
    let b1: Result<Bump<1>, ()> = if f {
        if cap == 0 { Bump::try_new().map_err(|_| ()) } else { Bump::try_with_capacity(cap).map_err(|_| ()) }
    } else if cap == 0 {
        Ok(if alt { Bump::default() } else { Bump::new() })
    } else {
        Ok(Bump::with_capacity(cap))
    };
    Some(b1.map(|b| {
        let md = std::mem::ManuallyDrop::new(b);
        // M == 1 here, so this is the identity on the type
        unsafe { std::mem::transmute_copy::<std::mem::ManuallyDrop<Bump<1>>, Bump<M>>(&md) }
    }))
}


/// Run a whole plan (given ops, or generated on the fly when `gen` is Some).
pub fn run_plan<const M: usize>(plan: &mut Plan, gen: Option<(Profile, usize)>, static_addr: usize, footer_overhead: usize) -> Out {
    galloc::set_fault(plan.fault);
    galloc::set_shape(plan.shape);
    let mut ex = Exec::<M>::new(plan, static_addr, footer_overhead);
    types::DROPS.with(|d| d.borrow_mut().reserve(4096));
    ex.out.trace.push_str(&plan.header(static_addr));
    ex.out.trace.push('\n');
    crate::begin_plan(&plan.header(static_addr));
    match gen {
        None => {
            let ops = plan.ops.clone();
            for op in &ops {
                crate::set_current(plan.idx, ex.op_idx, op);
                ex.run_op(op);
            }
        }
        Some((prof, n_ops)) => {
            let mut r = Rng::new(plan.seed);
            let first = gen_first(&mut r, prof);
            crate::set_current(plan.idx, 0, &first);
            ex.run_op(&first);
            plan.ops.push(first);
            for _ in 0..n_ops {
                if ex.bump.is_none() {
                    // constructor failed: try again with a small capacity so the plan is not wasted
                    let op = Op::New { cap: r.pick(&[0usize, 0, 100, 1000]), f: true };
                    crate::set_current(plan.idx, ex.op_idx, &op);
                    ex.run_op(&op);
                    plan.ops.push(op);
                    continue;
                }
                let c = ex.gen_ctx();
                let op = gen_op(&mut r, prof, M, plan.uniform, &c);
                crate::set_current(plan.idx, ex.op_idx, &op);
                ex.run_op(&op);
                plan.ops.push(op);
            }
            if ex.bump.is_some() {
                let op = Op::Drop;
                crate::set_current(plan.idx, ex.op_idx, &op);
                ex.run_op(&op);
                plan.ops.push(op);
            }
        }
    }
    // an arena still alive at the end of a replayed plan is dropped silently (ledger checked)
    if let Some(b) = ex.bump.take() {
        let (_, evs) = galloc::record(|| drop(b));
        ex.apply_events(&evs, &Op::Drop, None);
    }
    galloc::set_fault(Fault::None);
    galloc::set_shape(false);
    ex.out.trace.push_str("END\n");
    ex.out
}


/// Two arenas of the same MIN_ALIGN driven by one thread in a random interleaving; each arena's
/// trace is written as its own PLAN block so that the model (fed only that arena's history)
/// checks it in isolation.
pub fn run_pair<const M: usize>(p1: &mut Plan, p2: &mut Plan, prof: Profile, n_ops: usize, static_addr: usize, fo: usize) -> (Out, Out) {
    galloc::set_fault(p1.fault);
    galloc::set_shape(p1.shape);
    let mut e1 = Exec::<M>::new(p1, static_addr, fo);
    let mut e2 = Exec::<M>::new(p2, static_addr, fo);
    types::DROPS.with(|d| d.borrow_mut().reserve(8192));
    e1.out.trace.push_str(&p1.header(static_addr));
    e1.out.trace.push('\n');
    e2.out.trace.push_str(&p2.header(static_addr));
    e2.out.trace.push('\n');
    crate::begin_plan(&format!("{} # interleaved with plan {}", p1.header(static_addr), p2.idx));
    let mut r1 = Rng::new(p1.seed);
    let mut r2 = Rng::new(p2.seed);
    let mut sched = Rng::new(p1.seed ^ p2.seed ^ 0x5EED);
    let f1 = gen_first(&mut r1, prof);
    e1.run_op(&f1);
    p1.ops.push(f1);
    let f2 = gen_first(&mut r2, prof);
    e2.run_op(&f2);
    p2.ops.push(f2);
    let (mut n1, mut n2) = (0usize, 0usize);
    while n1 < n_ops || n2 < n_ops {
        let pick1 = if n1 >= n_ops { false } else if n2 >= n_ops { true } else { sched.chance(1, 2) };
        // bursts make the interleaving less regular
        let burst = sched.range(1, 4) as usize;
        for _ in 0..burst {
            if pick1 && n1 < n_ops {
                let op = if e1.bump.is_none() { Op::New { cap: r1.pick(&[0usize, 0, 100, 1000]), f: true } } else { gen_op(&mut r1, prof, M, None, &e1.gen_ctx()) };
                crate::set_current(p1.idx, e1.op_idx, &op);
                e1.run_op(&op);
                p1.ops.push(op);
                n1 += 1;
            } else if !pick1 && n2 < n_ops {
                let op = if e2.bump.is_none() { Op::New { cap: r2.pick(&[0usize, 0, 100, 1000]), f: true } } else { gen_op(&mut r2, prof, M, None, &e2.gen_ctx()) };
                crate::set_current(p2.idx, e2.op_idx, &op);
                e2.run_op(&op);
                p2.ops.push(op);
                n2 += 1;
            }
        }
    }
    for (e, p) in [(&mut e1, &mut *p1), (&mut e2, &mut *p2)] {
        if e.bump.is_some() {
            let op = Op::Drop;
            e.run_op(&op);
            p.ops.push(op);
        }
        e.out.trace.push_str("END\n");
    }
    galloc::set_fault(Fault::None);
    galloc::set_shape(false);
    (e1.out, e2.out)
}
