//! Small multi-threaded programs run under Miri (C20: distinct arenas used by different threads
//! must not race). Mode `zst`: threads touch chunk-less arenas with zero-sized requests (the
//! known finding F8: stores to the shared static empty chunk). Mode `plain`: everything else —
//! own arena per thread, ordinary allocations, collections, resets, hand-over between threads.
use bumpalo::{collections::Vec as BVec, Bump};
use std::thread;

fn worker_plain(seed: u64) -> u64 {
    let mut b = Bump::new();
    let mut acc = 0u64;
    for round in 0..3u64 {
        {
            let x = b.alloc(seed + round);
            let s = b.alloc_slice_fill_with(5, |i| (i as u64) * seed);
            let st = b.alloc_str("hello");
            let mut v = BVec::new_in(&b);
            for i in 0..20u64 {
                v.push(i ^ seed);
            }
            // enough to make the arena chain a second and a third chunk (the slow path with a non-empty chunk list)
            let big = b.alloc_slice_fill_copy(100, seed);
            let bigger = b.alloc_slice_fill_copy(300, round);
            acc += *x + s.iter().sum::<u64>() + st.len() as u64 + v.iter().sum::<u64>() + big[0] + bigger[0];
        }
        b.reset();
    }
    acc
}

fn main() {
    let mode = std::env::args().nth(1).unwrap_or_else(|| "plain".into());
    match mode.as_str() {
        "zst" => {
            // two threads, each with its own arena that has not obtained memory yet
            let hs: Vec<_> = (0..2)
                .map(|_| {
                    thread::spawn(|| {
                        // everything an arena that holds no chunk can be asked to do
                        let mut b = Bump::new();
                        b.reset();
                        b.alloc(());
                        let _ = b.alloc_slice_fill_copy(0, 0u8);
                        let _ = b.alloc_try_with(|| Err::<std::convert::Infallible, u8>(1));
                        let _ = b.chunk_capacity() + b.allocated_bytes() + b.allocated_bytes_including_metadata();
                        let _ = b.iter_allocated_chunks().count();
                        b.set_allocation_limit(Some(0));
                        let _ = b.try_alloc(1u8);
                        b.reset();
                        let v: BVec<()> = BVec::new_in(&b);
                        drop(v);
                        // zero-sized blocks released again on an arena that holds no chunk: a failing slice fill of
                        // a zero-sized element type (dealloc of the "last allocation"), collections of zero-sized
                        // elements growing, shrinking, being converted and dropped
                        // (a fresh arena: `b` may hold a chunk by now)
                        let b = Bump::new();
                        let _ = b.alloc_slice_try_fill_with::<(), _, u8>(3, |i| if i == 1 { Err(7) } else { Ok(()) });
                        let _ = b.alloc_slice_try_fill_iter((0..2).map(|i| if i == 1 { Err::<(), u8>(7) } else { Ok(()) }));
                        let _ = b.alloc_slice_fill_iter([(), ()].into_iter());
                        let _ = b.try_alloc_try_with(|| Err::<(), u8>(1));
                        // failing initialisers whose `Result` is itself zero-sized: the rewind happens "inside" the static empty chunk
                        let b = Bump::new();
                        let _ = b.alloc_try_with(|| Err::<std::convert::Infallible, ()>(()));
                        let _ = b.try_alloc_try_with(|| Err::<std::convert::Infallible, ()>(()));
                        let b: Bump<8> = Bump::with_min_align();
                        let _ = b.try_alloc_try_with(|| Err::<std::convert::Infallible, ()>(()));
                        let _ = b.alloc_try_with(|| Err::<std::convert::Infallible, ()>(()));
                        let b = Bump::new();
                        let mut z: BVec<()> = BVec::with_capacity_in(4, &b);
                        z.push(());
                        z.extend_from_slice(&[(), ()]);
                        z.pop();
                        z.shrink_to_fit();
                        let bx = z.into_boxed_slice();
                        drop(bx);
                        let zb = bumpalo::boxed::Box::new_in((), &b);
                        drop(zb);
                        let st = bumpalo::collections::String::new_in(&b);
                        drop(st);
                        drop(b);
                        let c: Bump<16> = Bump::with_min_align();
                        c.alloc(());
                        // the `Allocator` API with zero-sized layouts on arenas that hold no chunk: allocate, shrink and grow "in place",
                        // deallocate (every one of them may be tempted to store the finger)
                        {
                            use allocator_api2::alloc::Allocator;
                            use std::alloc::Layout;
                            let z1 = Layout::from_size_align(0, 1).unwrap();
                            let z8 = Layout::from_size_align(0, 8).unwrap();
                            let d = Bump::new();
                            let a = &d;
                            let p = a.allocate(z1).unwrap();
                            let p = unsafe { a.shrink(p.cast::<u8>(), z1, z1) }.unwrap();
                            let p = unsafe { a.grow(p.cast::<u8>(), z1, z1) }.unwrap();
                            let p = unsafe { a.grow_zeroed(p.cast::<u8>(), z1, z1) }.unwrap();
                            unsafe { a.deallocate(p.cast::<u8>(), z1) };
                            let q = a.allocate_zeroed(z8).unwrap();
                            let q = unsafe { a.shrink(q.cast::<u8>(), z8, z1) }.unwrap();
                            unsafe { a.deallocate(q.cast::<u8>(), z1) };
                            let e: Bump<8> = Bump::with_min_align();
                            let a = &e;
                            let p = a.allocate(z1).unwrap();
                            let p = unsafe { a.shrink(p.cast::<u8>(), z1, z1) }.unwrap();
                            unsafe { a.deallocate(p.cast::<u8>(), z1) };
                        }
                    })
                })
                .collect();
            for h in hs {
                h.join().unwrap();
            }
        }
        "send" => {
            // C05 support: every value type of the crate that is `Send` is moved to another thread and dropped there
            // while the owning thread keeps allocating from the arena the value came from.  These programs compile
            // (the types are `Send`); they are race-free exactly when those values never reach the arena.
            let b = Bump::new();
            for round in 0..2u64 {
                let mut v = BVec::new_in(&b);
                for i in 0..8u64 {
                    v.push(i + round);
                }
                let mut it = v.into_iter();
                it.next();
                let bx = bumpalo::boxed::Box::new_in(round, &b);
                let bs: bumpalo::boxed::Box<[u64]> = {
                    let mut w = BVec::new_in(&b);
                    w.extend_from_slice(&[1, 2, 3]);
                    w.into_boxed_slice()
                };
                let mut dv = BVec::new_in(&b);
                dv.extend_from_slice(&[1u64, 2, 3, 4, 5]);
                thread::scope(|s| {
                    let d = dv.drain(1..3);
                    s.spawn(move || drop(it));
                    s.spawn(move || drop(bx));
                    s.spawn(move || drop(bs));
                    s.spawn(move || drop(d));
                    for i in 0..40u64 {
                        b.alloc(i);
                        let _ = b.alloc_str("x");
                    }
                });
                drop(dv);
            }
            println!("send ok");
        }
        _ => {
            // own arena per thread, concurrently
            let hs: Vec<_> = (0..3u64).map(|t| thread::spawn(move || worker_plain(t + 1))).collect();
            let mut total = 0;
            for h in hs {
                total += h.join().unwrap();
            }
            // hand-over: build on one thread, use and drop on another
            let b = Bump::with_capacity(256);
            b.alloc(7u32);
            let h = thread::spawn(move || {
                let mut b = b;
                let y = *b.alloc(35u64);
                b.reset();
                b.alloc_str("moved");
                y
            });
            total += h.join().unwrap();
            // a chunk-less arena created here, moved, first used there (no zero-sized requests)
            let c = Bump::new();
            let h2 = thread::spawn(move || *c.alloc(5u8) as u64);
            total += h2.join().unwrap();
            println!("total {}", total);
        }
    }
}
