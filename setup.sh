#!/bin/sh
# MANIFEST.setup_cmd: build everything from files on disk, offline.
set -e
cd "$(dirname "$0")"
export CARGO_NET_OFFLINE=true
python3 tools/extract.py >/dev/null
(cd lean && lake build BumpVerif bvdrv)
(cd harness && cp -n /repo/Cargo.lock . 2>/dev/null || true; cargo build --offline && cargo build --offline --release)
echo setup-ok
