#!/bin/sh
# MANIFEST.setup_cmd: build everything from files on disk, offline.
set -e
cd "$(dirname "$0")"
export CARGO_NET_OFFLINE=true
python3 tools/extract.py >/dev/null
# models, drivers, and every property / obligation module (so that the first quick check is warm)
PROPS=$(cd lean && ls BumpVerif/Props/*.lean | sed 's#/#.#g; s#\.lean$##')
(cd lean && lake build BumpVerif bvdrv bvdrv_vec bvdrv_str bvdrv_box $PROPS)
for h in harness harness_vec harness_str harness_box; do
  (cd $h && cp -n /repo/Cargo.lock . 2>/dev/null || true; cargo build --offline && cargo build --offline --release)
done
echo setup-ok
