//! Tiny crate whose only purpose is to make cargo build the `bumpalo` rlib (features
//! collections + boxed + allocator-api2 + std) from the working tree; the C05 probe programs
//! are compiled by rustc directly against that rlib.
pub use bumpalo;
